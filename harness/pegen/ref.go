package pegen

import (
	"bytes"
	"crypto"
	_ "crypto/md5" // hash registrations for crypto.Hash.New
	_ "crypto/sha1"
	_ "crypto/sha256"
	_ "crypto/sha512"
	"encoding/binary"
	"errors"
	"fmt"
	"sort"
)

// Errors returned by the reference parser / computations.
var (
	ErrNotPE = errors.New("pegen: not a PE image")
	// ErrNoCertDir: NumberOfRvaAndSizes / SizeOfOptionalHeader leave no room
	// for data directory 4.
	ErrNoCertDir = errors.New("pegen: optional header has no certificate table directory")
	// ErrAmbiguousLayout: the file is laid out in a way for which the
	// Authenticode document does not unambiguously define the hash (gaps or
	// overlaps between SizeOfHeaders and the sections, raw data beyond EOF,
	// certificate table not at the very end of the file, ...). The oracle
	// refuses to answer rather than guess.
	ErrAmbiguousLayout = errors.New("pegen: layout outside the oracle's well-defined domain")
)

// SectionInfo is one parsed IMAGE_SECTION_HEADER.
type SectionInfo struct {
	Name             string // up to the first NUL
	RawName          [8]byte
	HeaderOff        int // file offset of this section header
	VirtualSize      uint32
	VirtualAddress   uint32
	SizeOfRawData    uint32
	PointerToRawData uint32
	Characteristics  uint32
}

// Info is the result of independently parsing the raw bytes of an image.
type Info struct {
	FileSize             int
	PEOff                int // e_lfanew
	Machine              uint16
	NumberOfSections     int
	TimeDateStamp        uint32
	FileCharacteristics  uint16
	OptOff               int
	SizeOfOptionalHeader int
	PE32Plus             bool
	SectionAlignment     uint32
	FileAlignment        uint32
	SizeOfImage          uint32
	SizeOfHeaders        uint32
	ChecksumOff          int
	StoredChecksum       uint32
	Subsystem            uint16
	DllCharacteristics   uint16
	NumberOfRvaAndSizes  uint32
	DataDirOff           int
	CertDirOff           int    // file offset of data directory entry 4 (8 bytes)
	CertTableOff         uint32 // FILE OFFSET (not an RVA) from directory 4
	CertTableSize        uint32
	SectionTableOff      int
	SectionTableEnd      int
	Sections             []SectionInfo
	// EndOfSections = max(PointerToRawData+SizeOfRawData) over sections with
	// SizeOfRawData != 0, or SizeOfHeaders when there is none.
	EndOfSections int
}

// HasCertTable reports whether directory 4 designates a non-empty table.
func (in *Info) HasCertTable() bool { return in.CertTableSize != 0 }

// ContentEnd is the size of the file without its certificate table (valid
// for tables located at the end of the file).
func (in *Info) ContentEnd() int {
	if in.HasCertTable() {
		return int(in.CertTableOff)
	}
	return in.FileSize
}

// Parse reads the headers of a PE image. It does not validate the placement
// of sections or of the certificate table (see CheckLayout).
func Parse(data []byte) (*Info, error) {
	le := binary.LittleEndian
	if len(data) < 64 || data[0] != 'M' || data[1] != 'Z' {
		return nil, ErrNotPE
	}
	in := &Info{FileSize: len(data)}
	lfanew := le.Uint32(data[0x3c:])
	if uint64(lfanew)+24 > uint64(len(data)) {
		return nil, fmt.Errorf("%w: e_lfanew %#x beyond file", ErrNotPE, lfanew)
	}
	in.PEOff = int(lfanew)
	if !bytes.Equal(data[in.PEOff:in.PEOff+4], []byte("PE\x00\x00")) {
		return nil, fmt.Errorf("%w: bad PE signature", ErrNotPE)
	}
	fh := data[in.PEOff+4:]
	in.Machine = le.Uint16(fh[0:])
	in.NumberOfSections = int(le.Uint16(fh[2:]))
	in.TimeDateStamp = le.Uint32(fh[4:])
	in.SizeOfOptionalHeader = int(le.Uint16(fh[16:]))
	in.FileCharacteristics = le.Uint16(fh[18:])
	in.OptOff = in.PEOff + 24
	if in.OptOff+in.SizeOfOptionalHeader > len(data) {
		return nil, fmt.Errorf("%w: optional header beyond file", ErrNotPE)
	}
	if in.SizeOfOptionalHeader < 2 {
		return nil, fmt.Errorf("%w: no optional header", ErrNotPE)
	}
	oh := data[in.OptOff : in.OptOff+in.SizeOfOptionalHeader]
	fixed := 0
	switch le.Uint16(oh[0:]) {
	case 0x10b:
		fixed = 96
	case 0x20b:
		fixed = 112
		in.PE32Plus = true
	default:
		return nil, fmt.Errorf("%w: optional header magic %#x", ErrNotPE, le.Uint16(oh[0:]))
	}
	if len(oh) < fixed {
		return nil, fmt.Errorf("%w: optional header too short (%d)", ErrNotPE, len(oh))
	}
	in.SectionAlignment = le.Uint32(oh[32:])
	in.FileAlignment = le.Uint32(oh[36:])
	in.SizeOfImage = le.Uint32(oh[56:])
	in.SizeOfHeaders = le.Uint32(oh[60:])
	in.ChecksumOff = in.OptOff + 64
	in.StoredChecksum = le.Uint32(oh[64:])
	in.Subsystem = le.Uint16(oh[68:])
	in.DllCharacteristics = le.Uint16(oh[70:])
	in.NumberOfRvaAndSizes = le.Uint32(oh[fixed-4:])
	in.DataDirOff = in.OptOff + fixed
	avail := uint32((len(oh) - fixed) / 8)
	if in.NumberOfRvaAndSizes < avail {
		avail = in.NumberOfRvaAndSizes
	}
	if avail < 5 {
		return nil, ErrNoCertDir
	}
	in.CertDirOff = in.DataDirOff + 4*8
	in.CertTableOff = le.Uint32(data[in.CertDirOff:])
	in.CertTableSize = le.Uint32(data[in.CertDirOff+4:])

	in.SectionTableOff = in.OptOff + in.SizeOfOptionalHeader
	in.SectionTableEnd = in.SectionTableOff + 40*in.NumberOfSections
	if in.SectionTableEnd > len(data) {
		return nil, fmt.Errorf("%w: section table beyond file", ErrNotPE)
	}
	in.EndOfSections = int(in.SizeOfHeaders)
	first := true
	for i := 0; i < in.NumberOfSections; i++ {
		off := in.SectionTableOff + 40*i
		sh := data[off : off+40]
		var si SectionInfo
		copy(si.RawName[:], sh[:8])
		name := sh[:8]
		if j := bytes.IndexByte(name, 0); j >= 0 {
			name = name[:j]
		}
		si.Name = string(name)
		si.HeaderOff = off
		si.VirtualSize = le.Uint32(sh[8:])
		si.VirtualAddress = le.Uint32(sh[12:])
		si.SizeOfRawData = le.Uint32(sh[16:])
		si.PointerToRawData = le.Uint32(sh[20:])
		si.Characteristics = le.Uint32(sh[36:])
		in.Sections = append(in.Sections, si)
		if si.SizeOfRawData != 0 {
			end := int(uint64(si.PointerToRawData) + uint64(si.SizeOfRawData))
			if first || end > in.EndOfSections {
				in.EndOfSections = end
			}
			first = false
		}
	}
	return in, nil
}

// dataSections returns the sections with SizeOfRawData != 0 sorted by
// PointerToRawData ascending (Authenticode step 11/12). Stable, so equal
// pointers keep table order.
func (in *Info) dataSections() []SectionInfo {
	var out []SectionInfo
	for _, s := range in.Sections {
		if s.SizeOfRawData != 0 {
			out = append(out, s)
		}
	}
	sort.SliceStable(out, func(i, j int) bool { return out[i].PointerToRawData < out[j].PointerToRawData })
	return out
}

// CheckLayout verifies the file is inside the domain where the Authenticode
// document defines the hash without ambiguity:
//   - section table ends inside SizeOfHeaders, SizeOfHeaders <= file size;
//   - the sections that have raw data, ordered by PointerToRawData, tile the
//     file contiguously starting exactly at SizeOfHeaders and end inside the
//     file (so "SUM_OF_BYTES_HASHED" is also the file offset where the
//     trailing data starts, which is what step 14 of the document assumes);
//   - a certificate table, if any, starts at or after the end of the sections
//     and ends exactly at the end of the file.
func (in *Info) CheckLayout() error {
	bad := func(f string, a ...interface{}) error {
		return fmt.Errorf("%w: %s", ErrAmbiguousLayout, fmt.Sprintf(f, a...))
	}
	if int64(in.SizeOfHeaders) < int64(in.SectionTableEnd) {
		return bad("SizeOfHeaders %#x < end of section table %#x", in.SizeOfHeaders, in.SectionTableEnd)
	}
	if int64(in.SizeOfHeaders) > int64(in.FileSize) {
		return bad("SizeOfHeaders %#x > file size %#x", in.SizeOfHeaders, in.FileSize)
	}
	if in.CertDirOff+8 > int(in.SizeOfHeaders) {
		return bad("certificate directory entry outside SizeOfHeaders")
	}
	next := uint64(in.SizeOfHeaders)
	for _, s := range in.dataSections() {
		if uint64(s.PointerToRawData) != next {
			return bad("section %q raw data at %#x, expected %#x", s.Name, s.PointerToRawData, next)
		}
		next += uint64(s.SizeOfRawData)
		if next > uint64(in.FileSize) {
			return bad("section %q raw data ends at %#x beyond file size %#x", s.Name, next, in.FileSize)
		}
	}
	if in.HasCertTable() {
		off, size := uint64(in.CertTableOff), uint64(in.CertTableSize)
		if off < next {
			return bad("certificate table at %#x overlaps sections ending at %#x", off, next)
		}
		if off+size != uint64(in.FileSize) {
			return bad("certificate table %#x+%#x does not end at file size %#x", off, size, in.FileSize)
		}
	}
	return nil
}

func parseChecked(data []byte) (*Info, error) {
	in, err := Parse(data)
	if err != nil {
		return nil, err
	}
	if err := in.CheckLayout(); err != nil {
		return nil, err
	}
	return in, nil
}

// writeHeaders feeds bytes [0, SizeOfHeaders) minus the CheckSum field (4
// bytes) and minus data directory entry 4 (8 bytes) -- steps 3..8 of the
// Authenticode document.
func writeHeaders(w interface{ Write([]byte) (int, error) }, data []byte, in *Info) {
	w.Write(data[:in.ChecksumOff])
	w.Write(data[in.ChecksumOff+4 : in.CertDirOff])
	w.Write(data[in.CertDirOff+8 : in.SizeOfHeaders])
}

func authDigest(data []byte, h crypto.Hash, pad bool) ([]byte, error) {
	if !h.Available() {
		return nil, fmt.Errorf("pegen: hash %v unavailable", h)
	}
	in, err := parseChecked(data)
	if err != nil {
		return nil, err
	}
	d := h.New()
	writeHeaders(d, data, in)
	sum := uint64(in.SizeOfHeaders) // SUM_OF_BYTES_HASHED
	for _, s := range in.dataSections() {
		p := uint64(s.PointerToRawData)
		d.Write(data[p : p+uint64(s.SizeOfRawData)])
		sum += uint64(s.SizeOfRawData)
	}
	// Step 14: extra data = FILE_SIZE - (certificate table size +
	// SUM_OF_BYTES_HASHED), located at file offset SUM_OF_BYTES_HASHED.
	extra := int64(in.FileSize) - int64(in.CertTableSize) - int64(sum)
	if extra < 0 {
		return nil, fmt.Errorf("%w: negative trailing length", ErrAmbiguousLayout)
	}
	d.Write(data[sum : sum+uint64(extra)])
	if pad {
		content := int64(in.FileSize) - int64(in.CertTableSize)
		d.Write(make([]byte, (8-content%8)%8))
	}
	return d.Sum(nil), nil
}

// AuthenticodeDigest computes the Authenticode PE image hash of the file
// exactly as given, following "Calculating the PE Image Hash" literally:
//
//	hash [0, CheckSum) ++ (CheckSum+4, CertDirEntry) ++ (CertDirEntry+8, SizeOfHeaders)
//	then each section with SizeOfRawData != 0, ordered by PointerToRawData,
//	     bytes [PointerToRawData, PointerToRawData+SizeOfRawData)
//	then FILE_SIZE - CertTableSize - SUM_OF_BYTES_HASHED bytes starting at
//	     offset SUM_OF_BYTES_HASHED (overlay / debug info / anything trailing).
//
// NO implicit padding is added: the hash covers the bytes present in the
// file (minus the three exclusions). This is the digest a VERIFIER computes
// over a signed file, and the digest of an unsigned file whose content length
// is already a multiple of 8.
//
// Padding convention (not in the 2008 document, but what signtool /
// osslsigncode / relic do): the certificate table must start 8-byte aligned,
// so a signer first extends the FILE with zero bytes to a multiple of 8, and
// those zero bytes become part of the file and therefore of the hash. For an
// unsigned input whose length is not a multiple of 8, the digest inside a
// freshly produced signature therefore equals AuthenticodeDigestPadded(input),
// and equals AuthenticodeDigest(signed output). Both identities are useful
// properties.
//
// Files outside the unambiguous domain yield ErrAmbiguousLayout (see
// CheckLayout); SizeOfRawData is used exactly as stored (never rounded to
// FileAlignment) -- for a non-last unaligned section the document gives no
// licence to round, but then the contiguity check fails and the oracle
// abstains anyway.
func AuthenticodeDigest(data []byte, h crypto.Hash) ([]byte, error) {
	return authDigest(data, h, false)
}

// AuthenticodeDigestPadded is AuthenticodeDigest followed by as many zero
// bytes as needed to make the content length (file size minus certificate
// table size) a multiple of 8. Identical to AuthenticodeDigest when the
// content length is already a multiple of 8.
func AuthenticodeDigestPadded(data []byte, h crypto.Hash) ([]byte, error) {
	return authDigest(data, h, true)
}

// PageSize is the page size assumed by PageHashes.
const PageSize = 4096

// PageHashes computes the contents of the SpcPeImagePageHashes attribute
// value (v1 for SHA-1, v2 for SHA-256): a concatenation of
// (uint32 LE file offset, digest) records, with PageSize 4096.
//
// The format is NOT described in the public Authenticode document; this
// follows what is publicly known from signtool output as reimplemented and
// validated by osslsigncode (from memory, not transcribed from relic):
//
//  1. record (0, H(headers)) where headers = bytes [0, SizeOfHeaders) with
//     the CheckSum field and directory entry 4 removed, followed by
//     (pageSize - SizeOfHeaders) zero bytes. NOTE: the zero fill is computed
//     from the un-trimmed header size, so the hashed message is pageSize-12
//     bytes long, not pageSize. UNSURE: this "12 bytes short" detail is how I
//     remember osslsigncode doing it; if Windows instead pads to a full page
//     the first record differs.
//  2. for each section with SizeOfRawData != 0, for each pageSize chunk of
//     its raw data: record (file offset of chunk, H(chunk zero-padded to
//     pageSize)).
//  3. terminator record (end of last section's raw data, all-zero digest).
//
// Things I am unsure of, besides (1):
//   - Section order: I iterate in PointerToRawData order (same as the image
//     hash). osslsigncode iterates in section-table order. They coincide for
//     every image Build emits (tables are in file order).
//   - Page size: 4096 here. osslsigncode uses the image's SectionAlignment
//     field as page size; relic uses 8192 for IA64/Alpha machines, else 4096.
//     Use PageHashesWithPageSize to explore; for SectionAlignment==4096 and
//     non-IA64 images all three agree.
//   - No sections with raw data: terminator offset is emitted as 0 (the
//     "last position" never advanced). Could equally be SizeOfHeaders. Do not
//     treat a disagreement on such images as a finding without other evidence.
//   - SizeOfHeaders > pageSize: behaviour unknown; an error is returned.
//   - Trailing data after the last section (overlay) is not covered by any
//     page hash record, as far as I know.
func PageHashes(data []byte, h crypto.Hash) ([]byte, error) {
	return PageHashesWithPageSize(data, h, PageSize)
}

// PageHashesWithPageSize is PageHashes with an explicit page size.
func PageHashesWithPageSize(data []byte, h crypto.Hash, pageSize int) ([]byte, error) {
	if !h.Available() {
		return nil, fmt.Errorf("pegen: hash %v unavailable", h)
	}
	if pageSize <= 0 {
		return nil, errors.New("pegen: bad page size")
	}
	in, err := parseChecked(data)
	if err != nil {
		return nil, err
	}
	if int(in.SizeOfHeaders) > pageSize {
		return nil, fmt.Errorf("%w: SizeOfHeaders %#x larger than a page", ErrAmbiguousLayout, in.SizeOfHeaders)
	}
	le := binary.LittleEndian
	zeros := make([]byte, pageSize)
	var out []byte
	var off [4]byte

	d := h.New()
	writeHeaders(d, data, in)
	d.Write(zeros[:pageSize-int(in.SizeOfHeaders)])
	out = append(out, off[:]...) // offset 0
	out = d.Sum(out)

	last := uint32(0)
	for _, s := range in.dataSections() {
		raw := data[s.PointerToRawData : uint64(s.PointerToRawData)+uint64(s.SizeOfRawData)]
		for pos := 0; pos < len(raw); pos += pageSize {
			chunk := raw[pos:]
			if len(chunk) > pageSize {
				chunk = chunk[:pageSize]
			}
			d := h.New()
			d.Write(chunk)
			d.Write(zeros[:pageSize-len(chunk)])
			le.PutUint32(off[:], s.PointerToRawData+uint32(pos))
			out = append(out, off[:]...)
			out = d.Sum(out)
		}
		last = s.PointerToRawData + s.SizeOfRawData
	}
	le.PutUint32(off[:], last)
	out = append(out, off[:]...)
	out = append(out, make([]byte, h.Size())...)
	return out, nil
}

// checksumFieldOff locates the CheckSum field using only e_lfanew, so that
// Checksum works on anything that has a DOS header. -1 if not locatable.
func checksumFieldOff(data []byte) int {
	if len(data) < 64 || data[0] != 'M' || data[1] != 'Z' {
		return -1
	}
	off := uint64(binary.LittleEndian.Uint32(data[0x3c:])) + 4 + 20 + 64
	if off+4 > uint64(len(data)) {
		return -1
	}
	return int(off)
}

// Checksum computes the PE image checksum as imagehlp's CheckSumMappedFile
// does: the file is summed as little-endian 16-bit words with end-around
// carry, the 4 bytes of the CheckSum field counting as zero; an odd trailing
// byte is added as a word with a zero high byte; the 16-bit result is added
// to the file length.
//
// The CheckSum field is zeroed by value (on a copy), so the result is well
// defined even if the field sits at an odd file offset. (imagehlp subtracts
// the two stored words from the sum rather than skipping them; in
// ones'-complement arithmetic that can differ from skipping only in the
// 0x0000/0xffff representation of zero -- ignored here.)
func Checksum(data []byte) uint32 {
	ckoff := checksumFieldOff(data)
	var total uint64
	n := len(data)
	at := func(i int) uint64 {
		if ckoff >= 0 && i >= ckoff && i < ckoff+4 {
			return 0
		}
		return uint64(data[i])
	}
	for i := 0; i+1 < n; i += 2 {
		total += at(i) | at(i+1)<<8
	}
	if n%2 == 1 {
		total += at(n - 1)
	}
	for total>>16 != 0 {
		total = total&0xffff + total>>16
	}
	return uint32(total) + uint32(n)
}

// Payload returns the "unsigned payload view" of the file: a copy with the
// CheckSum field zeroed, data directory entry 4 zeroed, and the certificate
// table bytes [CertTableOff, CertTableOff+CertTableSize) removed.
//
// Zero bytes that a signer inserted in front of the table to 8-align it
// cannot be told apart from genuine trailing zero bytes of the content by
// looking at the signed file alone, so Payload does NOT strip them. Compare
// with PayloadPadded / SamePayload, which canonicalise the other way round
// (pad the shorter side), losing nothing.
func Payload(data []byte) ([]byte, error) {
	in, err := Parse(data)
	if err != nil {
		return nil, err
	}
	out := append([]byte(nil), data...)
	for i := 0; i < 4; i++ {
		out[in.ChecksumOff+i] = 0
	}
	for i := 0; i < 8; i++ {
		out[in.CertDirOff+i] = 0
	}
	if in.HasCertTable() {
		off, end := uint64(in.CertTableOff), uint64(in.CertTableOff)+uint64(in.CertTableSize)
		if end > uint64(len(out)) || off < uint64(in.SectionTableEnd) {
			return nil, fmt.Errorf("%w: certificate table %#x..%#x outside file", ErrAmbiguousLayout, off, end)
		}
		out = append(out[:off], out[end:]...)
	}
	return out, nil
}

// PayloadPadded is Payload extended with zero bytes to a multiple of 8.
func PayloadPadded(data []byte) ([]byte, error) {
	p, err := Payload(data)
	if err != nil {
		return nil, err
	}
	return append(p, make([]byte, (8-len(p)%8)%8)...), nil
}

// SamePayload checks that signed carries the same payload as orig, allowing
// only for the signer having appended zero bytes up to the next multiple of 8
// before the certificate table. Returns nil if so, else a description.
func SamePayload(orig, signed []byte) error {
	po, err := Payload(orig)
	if err != nil {
		return fmt.Errorf("orig: %w", err)
	}
	ps, err := Payload(signed)
	if err != nil {
		return fmt.Errorf("signed: %w", err)
	}
	if bytes.Equal(po, ps) {
		return nil
	}
	pp := append(append([]byte(nil), po...), make([]byte, (8-len(po)%8)%8)...)
	if bytes.Equal(pp, ps) {
		return nil
	}
	n := len(po)
	if len(ps) < n {
		n = len(ps)
	}
	for i := 0; i < n; i++ {
		if po[i] != ps[i] {
			return fmt.Errorf("payload differs at offset %#x (orig %#02x, signed %#02x); lengths %d vs %d", i, po[i], ps[i], len(po), len(ps))
		}
	}
	return fmt.Errorf("payload length differs: orig %d (padded %d), signed %d; tail % x", len(po), len(pp), len(ps), ps[n:min(len(ps), n+16)])
}

// CertEntry is one WIN_CERTIFICATE of an attribute certificate table.
type CertEntry struct {
	Off             int // offset inside the table
	Length          uint32
	Revision        uint16
	CertificateType uint16
	Data            []byte // Length-8 bytes
}

// CertTable returns the raw attribute certificate table of the file (nil if
// directory 4 is empty).
func CertTable(data []byte) ([]byte, error) {
	in, err := Parse(data)
	if err != nil {
		return nil, err
	}
	if !in.HasCertTable() {
		return nil, nil
	}
	end := uint64(in.CertTableOff) + uint64(in.CertTableSize)
	if end > uint64(len(data)) {
		return nil, fmt.Errorf("%w: certificate table beyond file", ErrAmbiguousLayout)
	}
	return data[in.CertTableOff:end], nil
}

// ParseCertTable splits an attribute certificate table into entries. Each
// entry starts at an 8-byte aligned offset (dwLength rounded up to 8).
// Trailing bytes that cannot hold a header, or an entry overrunning the
// table, are errors.
func ParseCertTable(tbl []byte) ([]CertEntry, error) {
	var out []CertEntry
	off := 0
	for off < len(tbl) {
		if len(tbl)-off < 8 {
			return out, fmt.Errorf("pegen: %d stray bytes at end of certificate table", len(tbl)-off)
		}
		e := CertEntry{Off: off}
		e.Length = binary.LittleEndian.Uint32(tbl[off:])
		e.Revision = binary.LittleEndian.Uint16(tbl[off+4:])
		e.CertificateType = binary.LittleEndian.Uint16(tbl[off+6:])
		if e.Length < 8 || uint64(off)+uint64(e.Length) > uint64(len(tbl)) {
			return out, fmt.Errorf("pegen: certificate entry at %d has bad dwLength %d (table %d)", off, e.Length, len(tbl))
		}
		e.Data = tbl[off+8 : off+int(e.Length)]
		out = append(out, e)
		next := (uint64(off) + uint64(e.Length) + 7) &^ 7
		if next > uint64(len(tbl)) {
			// last entry's padding missing: tolerated only if nothing follows
			next = uint64(len(tbl))
		}
		off = int(next)
	}
	return out, nil
}
