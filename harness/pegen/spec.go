// Package pegen is a PE/COFF image generator plus a set of INDEPENDENT
// reference computations (Authenticode image digest, page hashes, PE checksum,
// unsigned-payload view). It deliberately imports nothing from relic: it is
// the oracle that relic's lib/authenticode is compared against.
//
// Sources the reference code is written from: the Microsoft PE/COFF
// specification ("PE Format") and the "Windows Authenticode Portable
// Executable Signature Format" document (v1.0, 2008), section "Calculating the
// PE Image Hash". Where those documents are silent or where I am unsure, the
// comments in ref.go say so explicitly.
package pegen

import (
	"encoding/binary"
	"errors"
	"fmt"
)

// Machine kinds used by the generator.
const (
	MachineI386  uint16 = 0x014c
	MachineARMNT uint16 = 0x01c4
	MachineIA64  uint16 = 0x0200
	MachineAMD64 uint16 = 0x8664
	MachineARM64 uint16 = 0xaa64
)

// Section characteristics bits used when filling SizeOfCode & friends.
const (
	scnCntCode   = 0x00000020
	scnCntInit   = 0x00000040
	scnCntUninit = 0x00000080
)

// Section describes one section of the image to build.
type Section struct {
	Name        string // at most 8 bytes, stored NUL padded
	VirtualSize uint32
	// VirtualAddress 0 means "assign the next SectionAlignment-aligned RVA".
	VirtualAddress uint32
	// Data is the raw data. Empty => SizeOfRawData 0 and PointerToRawData 0.
	Data            []byte
	Characteristics uint32
	// UnalignedRawSize: SizeOfRawData = len(Data) exactly (not rounded up to
	// FileAlignment) and no padding is emitted after it. Only allowed on the
	// last section that has data (this is what occurs in the wild; anything
	// else would misalign the following PointerToRawData).
	UnalignedRawSize bool
}

// Spec describes a PE image. The zero value is not valid; see Gen or fill in
// at least FileAlignment, SectionAlignment, DosStubLen, NumberOfRvaAndSizes.
type Spec struct {
	PE32Plus         bool
	Machine          uint16
	FileAlignment    uint32 // power of two, 512..65536
	SectionAlignment uint32 // power of two, >= FileAlignment
	Sections         []Section

	// HeaderGap extra bytes are placed between the end of the section table
	// and the (FileAlignment-rounded) end of headers; they lie inside
	// SizeOfHeaders. HeaderGapFill==0 => zero bytes, else a non-zero pattern.
	HeaderGap     int
	HeaderGapFill byte

	// DosStubLen is e_lfanew: the file offset of "PE\0\0". >= 64.
	DosStubLen int

	// NumberOfRvaAndSizes: 5..16. SizeOfOptionalHeader is kept consistent.
	NumberOfRvaAndSizes uint32

	// DataDirs gives (RVA, Size) of the data directories. Index 4 (the
	// certificate table) is ignored and set from ExistingCertTable. Entries
	// >= NumberOfRvaAndSizes are not emitted.
	DataDirs [16][2]uint32

	// Overlay is appended directly after the last section's raw data.
	Overlay []byte

	// ExistingCertTable, if non-nil, is placed at the end of the file at the
	// next 8-byte aligned offset after the overlay (zero padding inserted).
	// Data directory 4 = (file offset, len(ExistingCertTable)). Use
	// MakeCertTable to build well-formed contents.
	ExistingCertTable []byte

	// CorrectChecksum: store the real PE checksum, else store StoredChecksum.
	CorrectChecksum bool
	StoredChecksum  uint32

	Characteristics     uint16 // COFF file header characteristics
	TimeDateStamp       uint32
	ImageBase           uint64
	AddressOfEntryPoint uint32
	Subsystem           uint16
	DllCharacteristics  uint16
}

// SectionLayout is the placement Build gives to one section.
type SectionLayout struct {
	PointerToRawData uint32
	SizeOfRawData    uint32
	VirtualAddress   uint32
	VirtualSize      uint32
}

// Layout holds every offset Build derives from a Spec.
type Layout struct {
	PEOff           int // e_lfanew
	OptOff          int // optional header
	OptSize         int // SizeOfOptionalHeader
	ChecksumOff     int
	DataDirOff      int
	CertDirOff      int // data directory entry 4
	SectionTableOff int
	SectionTableEnd int
	SizeOfHeaders   uint32
	SizeOfImage     uint32
	Sections        []SectionLayout
	EndOfSections   int // end of last raw data (== SizeOfHeaders if none)
	OverlayOff      int
	ContentEnd      int // EndOfSections + len(Overlay): size of the unsigned file
	CertPad         int // zero bytes inserted to 8-align the cert table
	CertTableOff    int // 0 when there is no table
	CertTableSize   int
	FileSize        int
}

func alignUp(v, a uint32) uint32 {
	if a == 0 {
		return v
	}
	return (v + a - 1) / a * a
}

func isPow2(v uint32) bool { return v != 0 && v&(v-1) == 0 }

// Layout computes the placement of everything without emitting bytes.
func (s *Spec) Layout() (*Layout, error) {
	if !isPow2(s.FileAlignment) || s.FileAlignment < 512 || s.FileAlignment > 65536 {
		return nil, fmt.Errorf("pegen: bad FileAlignment %d", s.FileAlignment)
	}
	if !isPow2(s.SectionAlignment) || s.SectionAlignment < s.FileAlignment {
		return nil, fmt.Errorf("pegen: bad SectionAlignment %d", s.SectionAlignment)
	}
	if s.DosStubLen < 64 || s.DosStubLen > 1<<16 {
		return nil, fmt.Errorf("pegen: bad DosStubLen %d", s.DosStubLen)
	}
	if s.NumberOfRvaAndSizes < 5 || s.NumberOfRvaAndSizes > 16 {
		return nil, fmt.Errorf("pegen: NumberOfRvaAndSizes %d outside 5..16", s.NumberOfRvaAndSizes)
	}
	if len(s.Sections) > 96 {
		return nil, errors.New("pegen: too many sections")
	}
	if s.HeaderGap < 0 || s.HeaderGap > 1<<20 {
		return nil, errors.New("pegen: bad HeaderGap")
	}
	l := &Layout{}
	l.PEOff = s.DosStubLen
	l.OptOff = l.PEOff + 4 + 20
	fixed := 96
	if s.PE32Plus {
		fixed = 112
	}
	l.OptSize = fixed + 8*int(s.NumberOfRvaAndSizes)
	l.ChecksumOff = l.OptOff + 64
	l.DataDirOff = l.OptOff + fixed
	l.CertDirOff = l.DataDirOff + 4*8
	l.SectionTableOff = l.OptOff + l.OptSize
	l.SectionTableEnd = l.SectionTableOff + 40*len(s.Sections)
	l.SizeOfHeaders = alignUp(uint32(l.SectionTableEnd+s.HeaderGap), s.FileAlignment)

	lastData := -1
	for i := range s.Sections {
		if len(s.Sections[i].Data) > 0 {
			lastData = i
		}
	}
	ptr := l.SizeOfHeaders
	nextVA := alignUp(l.SizeOfHeaders, s.SectionAlignment)
	l.Sections = make([]SectionLayout, len(s.Sections))
	for i := range s.Sections {
		sec := &s.Sections[i]
		if len(sec.Name) > 8 {
			return nil, fmt.Errorf("pegen: section name %q longer than 8 bytes", sec.Name)
		}
		sl := &l.Sections[i]
		sl.VirtualSize = sec.VirtualSize
		if n := uint32(len(sec.Data)); n > 0 {
			sl.PointerToRawData = ptr
			if sec.UnalignedRawSize {
				if i != lastData {
					return nil, fmt.Errorf("pegen: UnalignedRawSize only allowed on the last section with data (section %d)", i)
				}
				sl.SizeOfRawData = n
			} else {
				sl.SizeOfRawData = alignUp(n, s.FileAlignment)
			}
			ptr += sl.SizeOfRawData
		} else if sec.UnalignedRawSize {
			return nil, fmt.Errorf("pegen: UnalignedRawSize on empty section %d", i)
		}
		if sec.VirtualAddress != 0 {
			sl.VirtualAddress = sec.VirtualAddress
		} else {
			sl.VirtualAddress = nextVA
		}
		span := sec.VirtualSize
		if span == 0 {
			span = sl.SizeOfRawData
		}
		if span == 0 {
			span = 1
		}
		nextVA = sl.VirtualAddress + alignUp(span, s.SectionAlignment)
	}
	l.SizeOfImage = nextVA
	l.EndOfSections = int(ptr)
	l.OverlayOff = l.EndOfSections
	l.ContentEnd = l.OverlayOff + len(s.Overlay)
	l.FileSize = l.ContentEnd
	if s.ExistingCertTable != nil {
		if len(s.ExistingCertTable) == 0 {
			return nil, errors.New("pegen: empty ExistingCertTable (use nil for none)")
		}
		l.CertPad = (8 - l.ContentEnd%8) % 8
		l.CertTableOff = l.ContentEnd + l.CertPad
		l.CertTableSize = len(s.ExistingCertTable)
		l.FileSize = l.CertTableOff + l.CertTableSize
	}
	return l, nil
}

// MakeCertTable builds an attribute certificate table with one
// WIN_CERTIFICATE entry per payload: dwLength, wRevision 0x0200,
// wCertificateType 0x0002 (PKCS#7 SignedData), payload, zero padding to 8
// bytes. With roundLength false dwLength = 8+len(payload) (possibly not a
// multiple of 8 -- relic/osslsigncode style; the padding is outside dwLength);
// with roundLength true dwLength is rounded up to a multiple of 8 (signtool
// style; the padding is inside dwLength). Either way each entry occupies a
// multiple of 8 bytes.
func MakeCertTable(roundLength bool, payloads ...[]byte) []byte {
	var out []byte
	for _, p := range payloads {
		n := 8 + len(p)
		padded := (n + 7) / 8 * 8
		dw := n
		if roundLength {
			dw = padded
		}
		var hdr [8]byte
		binary.LittleEndian.PutUint32(hdr[0:], uint32(dw))
		binary.LittleEndian.PutUint16(hdr[4:], 0x0200)
		binary.LittleEndian.PutUint16(hdr[6:], 0x0002)
		out = append(out, hdr[:]...)
		out = append(out, p...)
		out = append(out, make([]byte, padded-n)...)
	}
	return out
}

// Build emits the image described by s. s is not modified.
func Build(s *Spec) ([]byte, error) {
	l, err := s.Layout()
	if err != nil {
		return nil, err
	}
	le := binary.LittleEndian
	buf := make([]byte, l.FileSize)

	// IMAGE_DOS_HEADER
	copy(buf, "MZ")
	le.PutUint16(buf[2:], 0x0090)  // e_cblp
	le.PutUint16(buf[4:], 0x0003)  // e_cp
	le.PutUint16(buf[8:], 0x0004)  // e_cparhdr
	le.PutUint16(buf[12:], 0xffff) // e_maxalloc
	le.PutUint16(buf[16:], 0x00b8) // e_sp
	le.PutUint16(buf[24:], 0x0040) // e_lfarlc
	le.PutUint32(buf[0x3c:], uint32(l.PEOff))
	for i := 64; i < l.PEOff; i++ {
		buf[i] = byte(i*7 + 13) // DOS stub: arbitrary non-zero-ish bytes
	}

	// Signature + IMAGE_FILE_HEADER
	copy(buf[l.PEOff:], "PE\x00\x00")
	fh := buf[l.PEOff+4:]
	le.PutUint16(fh[0:], s.Machine)
	le.PutUint16(fh[2:], uint16(len(s.Sections)))
	le.PutUint32(fh[4:], s.TimeDateStamp)
	le.PutUint32(fh[8:], 0)  // PointerToSymbolTable
	le.PutUint32(fh[12:], 0) // NumberOfSymbols
	le.PutUint16(fh[16:], uint16(l.OptSize))
	le.PutUint16(fh[18:], s.Characteristics)

	// Derived size fields.
	var sizeCode, sizeInit, sizeUninit, baseCode, baseData uint32
	for i := range s.Sections {
		c := s.Sections[i].Characteristics
		sl := l.Sections[i]
		if c&scnCntCode != 0 {
			sizeCode += sl.SizeOfRawData
			if baseCode == 0 {
				baseCode = sl.VirtualAddress
			}
		}
		if c&scnCntInit != 0 {
			sizeInit += sl.SizeOfRawData
			if baseData == 0 {
				baseData = sl.VirtualAddress
			}
		}
		if c&scnCntUninit != 0 {
			sizeUninit += alignUp(sl.VirtualSize, s.FileAlignment)
		}
	}

	// IMAGE_OPTIONAL_HEADER32 / 64
	oh := buf[l.OptOff:]
	if s.PE32Plus {
		le.PutUint16(oh[0:], 0x20b)
	} else {
		le.PutUint16(oh[0:], 0x10b)
	}
	oh[2], oh[3] = 14, 0 // linker version
	le.PutUint32(oh[4:], sizeCode)
	le.PutUint32(oh[8:], sizeInit)
	le.PutUint32(oh[12:], sizeUninit)
	le.PutUint32(oh[16:], s.AddressOfEntryPoint)
	le.PutUint32(oh[20:], baseCode)
	if s.PE32Plus {
		le.PutUint64(oh[24:], s.ImageBase)
	} else {
		le.PutUint32(oh[24:], baseData)
		le.PutUint32(oh[28:], uint32(s.ImageBase))
	}
	le.PutUint32(oh[32:], s.SectionAlignment)
	le.PutUint32(oh[36:], s.FileAlignment)
	le.PutUint16(oh[40:], 6) // MajorOperatingSystemVersion
	le.PutUint16(oh[42:], 0)
	le.PutUint16(oh[44:], 0) // image version
	le.PutUint16(oh[46:], 0)
	le.PutUint16(oh[48:], 6) // MajorSubsystemVersion
	le.PutUint16(oh[50:], 0)
	le.PutUint32(oh[52:], 0) // Win32VersionValue
	le.PutUint32(oh[56:], l.SizeOfImage)
	le.PutUint32(oh[60:], l.SizeOfHeaders)
	le.PutUint32(oh[64:], 0) // CheckSum, patched below
	le.PutUint16(oh[68:], s.Subsystem)
	le.PutUint16(oh[70:], s.DllCharacteristics)
	if s.PE32Plus {
		le.PutUint64(oh[72:], 0x100000) // stack reserve
		le.PutUint64(oh[80:], 0x1000)   // stack commit
		le.PutUint64(oh[88:], 0x100000) // heap reserve
		le.PutUint64(oh[96:], 0x1000)   // heap commit
		le.PutUint32(oh[104:], 0)       // LoaderFlags
		le.PutUint32(oh[108:], s.NumberOfRvaAndSizes)
	} else {
		le.PutUint32(oh[72:], 0x100000)
		le.PutUint32(oh[76:], 0x1000)
		le.PutUint32(oh[80:], 0x100000)
		le.PutUint32(oh[84:], 0x1000)
		le.PutUint32(oh[88:], 0)
		le.PutUint32(oh[92:], s.NumberOfRvaAndSizes)
	}
	for i := 0; i < int(s.NumberOfRvaAndSizes); i++ {
		d := buf[l.DataDirOff+8*i:]
		switch {
		case i == 4:
			le.PutUint32(d[0:], uint32(l.CertTableOff))
			le.PutUint32(d[4:], uint32(l.CertTableSize))
		default:
			le.PutUint32(d[0:], s.DataDirs[i][0])
			le.PutUint32(d[4:], s.DataDirs[i][1])
		}
	}

	// Section table + raw data.
	for i := range s.Sections {
		sec := &s.Sections[i]
		sl := l.Sections[i]
		sh := buf[l.SectionTableOff+40*i:]
		copy(sh[0:8], sec.Name)
		le.PutUint32(sh[8:], sl.VirtualSize)
		le.PutUint32(sh[12:], sl.VirtualAddress)
		le.PutUint32(sh[16:], sl.SizeOfRawData)
		le.PutUint32(sh[20:], sl.PointerToRawData)
		// relocations / line numbers: all zero
		le.PutUint32(sh[36:], sec.Characteristics)
		copy(buf[sl.PointerToRawData:], sec.Data)
	}

	// Header gap.
	if s.HeaderGapFill != 0 {
		for i := 0; i < s.HeaderGap; i++ {
			b := s.HeaderGapFill + byte(i)
			if b == 0 {
				b = s.HeaderGapFill
			}
			buf[l.SectionTableEnd+i] = b
		}
	}

	copy(buf[l.OverlayOff:], s.Overlay)
	if s.ExistingCertTable != nil {
		copy(buf[l.CertTableOff:], s.ExistingCertTable)
	}

	ck := s.StoredChecksum
	if s.CorrectChecksum {
		ck = Checksum(buf)
	}
	le.PutUint32(buf[l.ChecksumOff:], ck)
	return buf, nil
}
