package cfb

import (
	"encoding/binary"
	"errors"
	"fmt"
	"strings"
	"unicode/utf16"
)

// Header holds the decoded compound file header.
type Header struct {
	CLSID                [16]byte
	MinorVersion         uint16
	MajorVersion         uint16
	ByteOrder            uint16
	SectorShift          uint16
	MiniSectorShift      uint16
	NumDirSectors        uint32
	NumFATSectors        uint32
	FirstDirSector       uint32
	TransactionSignature uint32
	MiniStreamCutoff     uint32
	FirstMiniFATSector   uint32
	NumMiniFATSectors    uint32
	FirstDIFATSector     uint32
	NumDIFATSectors      uint32
	DIFAT                [headerDIFATSize]uint32
}

// DirEntry is a raw 128-byte directory entry.
type DirEntry struct {
	ID        uint32
	RawName   [64]byte
	NameLen   uint16 // bytes, including the terminator
	Name      string // decoded name (up to the terminator implied by NameLen, or the first NUL)
	Type      uint8
	Color     uint8
	Left      uint32
	Right     uint32
	Child     uint32
	CLSID     [16]byte
	StateBits uint32
	CTime     uint64
	MTime     uint64
	Start     uint32
	Size      uint64
	Reachable bool // reached from the root through child/sibling links
}

// Units returns the UTF-16 code units of the name without terminator.
func (e *DirEntry) Units() []uint16 {
	n := 32
	if e.NameLen >= 2 && e.NameLen <= 64 && e.NameLen%2 == 0 {
		n = int(e.NameLen)/2 - 1
	}
	units := make([]uint16, 0, n)
	for i := 0; i < n; i++ {
		u := binary.LittleEndian.Uint16(e.RawName[2*i:])
		if u == 0 {
			break
		}
		units = append(units, u)
	}
	return units
}

// Node is an entry of the logical tree: a storage with its children in
// sibling-tree (in-order) order, or a stream with its data.
type Node struct {
	Entry    *DirEntry
	Path     string
	Data     []byte
	Children []*Node
}

// File is a parsed compound file plus every specification violation found.
type File struct {
	Header     Header
	SectorSize int
	NumSectors int // whole sectors following the header sector
	Issues     []string

	FAT               []uint32
	MiniFAT           []uint32
	FATSectors        []uint32 // from header DIFAT + DIFAT chain, in order
	DIFATSectors      []uint32
	DirSectors        []uint32
	MiniFATSectors    []uint32
	MiniStreamSectors []uint32
	MiniStream        []byte
	Entries           []DirEntry
	Root              *Node

	data       []byte
	owner      []int32 // per sector: index into owners, 0 = unowned
	owners     []string
	miniOwner  []int32
	truncated  bool
	issueCount int
}

const maxIssues = 500

func (f *File) issue(cat, format string, args ...interface{}) {
	f.issueCount++
	if len(f.Issues) >= maxIssues {
		if !f.truncated {
			f.truncated = true
			f.Issues = append(f.Issues, cat+": (further issues suppressed)")
		}
		return
	}
	f.Issues = append(f.Issues, cat+": "+fmt.Sprintf(format, args...))
}

// Valid reports whether no issue at all was found.
func (f *File) Valid() bool { return len(f.Issues) == 0 }

// HasIssue reports whether an issue of the given category ("fat", "chain:", ...) exists.
func (f *File) HasIssue(cat string) bool {
	cat = strings.TrimSuffix(cat, ":") + ":"
	for _, s := range f.Issues {
		if strings.HasPrefix(s, cat) {
			return true
		}
	}
	return false
}

// IssuesExcept returns the issues whose category is not listed.
func (f *File) IssuesExcept(cats ...string) []string {
	var out []string
next:
	for _, s := range f.Issues {
		for _, c := range cats {
			if strings.HasPrefix(s, strings.TrimSuffix(c, ":")+":") {
				continue next
			}
		}
		out = append(out, s)
	}
	return out
}

// SectorOffset returns the file offset of a sector.
func (f *File) SectorOffset(sec uint32) int64 {
	return (int64(sec) + 1) * int64(f.SectorSize)
}

// FATEntryOffset returns the file offset of the FAT entry describing sec, or -1.
func (f *File) FATEntryOffset(sec uint32) int64 {
	epf := uint32(f.SectorSize / 4)
	k := sec / epf
	if int(k) >= len(f.FATSectors) || int(f.FATSectors[k]) >= f.NumSectors {
		return -1
	}
	return f.SectorOffset(f.FATSectors[k]) + int64(sec%epf)*4
}

// MiniFATEntryOffset returns the file offset of the miniFAT entry for a mini sector, or -1.
func (f *File) MiniFATEntryOffset(msec uint32) int64 {
	epf := uint32(f.SectorSize / 4)
	k := msec / epf
	if int(k) >= len(f.MiniFATSectors) {
		return -1
	}
	return f.SectorOffset(f.MiniFATSectors[k]) + int64(msec%epf)*4
}

// DirEntryOffset returns the file offset of directory entry id, or -1.
func (f *File) DirEntryOffset(id uint32) int64 {
	per := uint32(f.SectorSize / dirEntrySize)
	k := id / per
	if int(k) >= len(f.DirSectors) {
		return -1
	}
	return f.SectorOffset(f.DirSectors[k]) + int64(id%per)*dirEntrySize
}

func (f *File) sector(sec uint32) []byte {
	if sec > MaxRegSect || int64(sec) >= int64(f.NumSectors) {
		return nil
	}
	off := f.SectorOffset(sec)
	return f.data[off : off+int64(f.SectorSize)]
}

func secName(v uint32) string {
	switch v {
	case FreeSect:
		return "FREESECT"
	case EndOfChain:
		return "ENDOFCHAIN"
	case FatSect:
		return "FATSECT"
	case DifSect:
		return "DIFSECT"
	}
	if v > MaxRegSect {
		return fmt.Sprintf("reserved(%#x)", v)
	}
	return fmt.Sprintf("%d", v)
}

func (f *File) newOwner(name string) int32 {
	f.owners = append(f.owners, name)
	return int32(len(f.owners) - 1)
}

// walkChain follows a FAT chain, claiming its sectors. Every defect is
// reported under "chain:". The sectors that could be followed are returned.
func (f *File) walkChain(start uint32, who string) []uint32 {
	id := f.newOwner(who)
	var secs []uint32
	s := start
	prev := "start"
	for {
		if s == EndOfChain {
			return secs
		}
		if s > MaxRegSect {
			f.issue("chain", "%s: %s is %s instead of a sector or ENDOFCHAIN", who, prev, secName(s))
			return secs
		}
		if int64(s) >= int64(f.NumSectors) {
			f.issue("chain", "%s: %s points to sector %d beyond end of file (%d sectors)", who, prev, s, f.NumSectors)
			return secs
		}
		if int64(s) >= int64(len(f.FAT)) {
			f.issue("chain", "%s: sector %d is not covered by the FAT", who, s)
			return secs
		}
		if o := f.owner[s]; o == id {
			f.issue("chain", "%s: cycle at sector %d", who, s)
			return secs
		} else if o != 0 {
			f.issue("chain", "%s: cross-linked with %s at sector %d", who, f.owners[o], s)
			return secs
		}
		f.owner[s] = id
		secs = append(secs, s)
		v := f.FAT[s]
		if v == FreeSect || v == FatSect || v == DifSect || (v > MaxRegSect && v != EndOfChain) {
			f.issue("chain", "%s: uses sector %d which is marked %s in the FAT", who, s, secName(v))
			return secs
		}
		prev = fmt.Sprintf("FAT[%d]", s)
		s = v
	}
}

// walkMiniChain is walkChain for the miniFAT.
func (f *File) walkMiniChain(start uint32, who string, id int32) []uint32 {
	var secs []uint32
	s := start
	prev := "start"
	limit := int64(len(f.MiniStream) / miniSectorSize)
	for {
		if s == EndOfChain {
			return secs
		}
		if s > MaxRegSect {
			f.issue("chain", "%s: mini chain %s is %s instead of a mini sector or ENDOFCHAIN", who, prev, secName(s))
			return secs
		}
		if int64(s) >= int64(len(f.MiniFAT)) {
			f.issue("chain", "%s: mini chain %s points to mini sector %d beyond the miniFAT (%d entries)", who, prev, s, len(f.MiniFAT))
			return secs
		}
		if int64(s) >= limit {
			f.issue("chain", "%s: mini sector %d lies beyond the mini stream (%d mini sectors)", who, s, limit)
			return secs
		}
		if o := f.miniOwner[s]; o == id {
			f.issue("chain", "%s: mini chain cycle at mini sector %d", who, s)
			return secs
		} else if o != 0 {
			f.issue("chain", "%s: mini chain cross-linked with %s at mini sector %d", who, f.owners[o], s)
			return secs
		}
		f.miniOwner[s] = id
		secs = append(secs, s)
		v := f.MiniFAT[s]
		if v > MaxRegSect && v != EndOfChain {
			f.issue("chain", "%s: uses mini sector %d which is marked %s in the miniFAT", who, s, secName(v))
			return secs
		}
		prev = fmt.Sprintf("miniFAT[%d]", s)
		s = v
	}
}

func (f *File) concat(secs []uint32) []byte {
	out := make([]byte, 0, len(secs)*f.SectorSize)
	for _, s := range secs {
		out = append(out, f.sector(s)...)
	}
	return out
}

// Parse reads a compound file. It fails only when the file cannot be read at
// all (no header, no directory, no root entry); every other defect is recorded
// in File.Issues.
func Parse(data []byte) (*File, error) {
	if len(data) < 512 {
		return nil, errors.New("cfb: file shorter than a header")
	}
	if string(data[:8]) != string(signature[:]) {
		return nil, errors.New("cfb: bad signature")
	}
	f := &File{owners: []string{""}}
	h := &f.Header
	le := binary.LittleEndian
	copy(h.CLSID[:], data[8:24])
	h.MinorVersion = le.Uint16(data[24:])
	h.MajorVersion = le.Uint16(data[26:])
	h.ByteOrder = le.Uint16(data[28:])
	h.SectorShift = le.Uint16(data[30:])
	h.MiniSectorShift = le.Uint16(data[32:])
	h.NumDirSectors = le.Uint32(data[40:])
	h.NumFATSectors = le.Uint32(data[44:])
	h.FirstDirSector = le.Uint32(data[48:])
	h.TransactionSignature = le.Uint32(data[52:])
	h.MiniStreamCutoff = le.Uint32(data[56:])
	h.FirstMiniFATSector = le.Uint32(data[60:])
	h.NumMiniFATSectors = le.Uint32(data[64:])
	h.FirstDIFATSector = le.Uint32(data[68:])
	h.NumDIFATSectors = le.Uint32(data[72:])
	for i := range h.DIFAT {
		h.DIFAT[i] = le.Uint32(data[76+4*i:])
	}
	if h.ByteOrder != 0xFFFE {
		return nil, fmt.Errorf("cfb: byte order mark %#04x", h.ByteOrder)
	}
	if h.SectorShift < 7 || h.SectorShift > 20 {
		return nil, fmt.Errorf("cfb: unreasonable sector shift %d", h.SectorShift)
	}
	switch {
	case h.MajorVersion == 3 && h.SectorShift == 9, h.MajorVersion == 4 && h.SectorShift == 12:
	case h.MajorVersion != 3 && h.MajorVersion != 4:
		f.issue("header", "major version %d (want 3 or 4)", h.MajorVersion)
		if h.SectorShift != 9 && h.SectorShift != 12 {
			f.issue("header", "sector shift %d (want 9 or 12)", h.SectorShift)
		}
	default:
		f.issue("header", "sector shift %d does not match major version %d", h.SectorShift, h.MajorVersion)
	}
	if h.MiniSectorShift != 6 {
		f.issue("header", "mini sector shift %d (want 6)", h.MiniSectorShift)
	}
	if h.MiniStreamCutoff != miniCutoff {
		f.issue("header", "mini stream cutoff %d (want 4096)", h.MiniStreamCutoff)
	}
	if h.CLSID != ([16]byte{}) {
		f.issue("header", "header CLSID is not zero")
	}
	for _, b := range data[34:40] {
		if b != 0 {
			f.issue("header", "reserved bytes 34..39 are not zero")
			break
		}
	}
	if h.MajorVersion == 3 && h.NumDirSectors != 0 {
		f.issue("header", "v3 file has directory sector count %d (want 0)", h.NumDirSectors)
	}
	ss := 1 << h.SectorShift
	f.SectorSize = ss
	if len(data) < ss {
		return nil, errors.New("cfb: file shorter than one sector")
	}
	if ss > 512 {
		for _, b := range data[512:ss] {
			if b != 0 {
				f.issue("header", "header sector is not zero-filled after byte 512")
				break
			}
		}
	}
	if rem := len(data) % ss; rem != 0 {
		f.issue("header", "file length %d is not a whole number of %d-byte sectors (%d trailing bytes)", len(data), ss, rem)
		padded := make([]byte, len(data)+ss-rem)
		copy(padded, data)
		data = padded
	}
	f.data = data
	f.NumSectors = len(data)/ss - 1
	f.owner = make([]int32, f.NumSectors)
	epf := ss / 4

	// ---- DIFAT ----
	difat := append([]uint32{}, h.DIFAT[:]...)
	difatOwner := f.newOwner("DIFAT")
	{
		s := h.FirstDIFATSector
		for {
			if s == EndOfChain {
				break
			}
			if s == FreeSect {
				if len(f.DIFATSectors) > 0 || h.NumDIFATSectors != 0 {
					f.issue("difat", "DIFAT chain terminated by FREESECT instead of ENDOFCHAIN")
				} else {
					f.issue("difat", "first DIFAT sector is FREESECT instead of ENDOFCHAIN")
				}
				break
			}
			buf := f.sector(s)
			if buf == nil {
				f.issue("difat", "DIFAT sector %s out of bounds", secName(s))
				break
			}
			if f.owner[s] == difatOwner {
				f.issue("difat", "DIFAT chain cycle at sector %d", s)
				break
			}
			f.owner[s] = difatOwner
			f.DIFATSectors = append(f.DIFATSectors, s)
			for i := 0; i < epf-1; i++ {
				difat = append(difat, le.Uint32(buf[4*i:]))
			}
			s = le.Uint32(buf[4*(epf-1):])
		}
	}
	if int64(h.NumDIFATSectors) != int64(len(f.DIFATSectors)) {
		f.issue("header", "DIFAT sector count %d but DIFAT chain has %d sectors", h.NumDIFATSectors, len(f.DIFATSectors))
	}

	// ---- FAT ----
	fatOwner := f.newOwner("FAT")
	sawFree := false
	gapReported := false
	for i, s := range difat {
		if s == FreeSect {
			sawFree = true
			continue
		}
		if sawFree && !gapReported {
			gapReported = true
			f.issue("difat", "DIFAT entry %d (%s) follows a FREESECT entry", i, secName(s))
		}
		f.FATSectors = append(f.FATSectors, s)
		buf := f.sector(s)
		if buf == nil {
			f.issue("difat", "FAT sector #%d = %s out of bounds", len(f.FATSectors)-1, secName(s))
			for j := 0; j < epf; j++ {
				f.FAT = append(f.FAT, FreeSect)
			}
			continue
		}
		switch f.owner[s] {
		case 0:
			f.owner[s] = fatOwner
		case fatOwner:
			f.issue("difat", "FAT sector %d listed more than once in the DIFAT", s)
		default:
			f.issue("difat", "FAT sector %d is also a DIFAT sector", s)
		}
		for j := 0; j < epf; j++ {
			f.FAT = append(f.FAT, le.Uint32(buf[4*j:]))
		}
	}
	if int64(h.NumFATSectors) != int64(len(f.FATSectors)) {
		f.issue("header", "FAT sector count %d but the DIFAT lists %d FAT sectors", h.NumFATSectors, len(f.FATSectors))
	}
	for _, s := range f.FATSectors {
		if int64(s) < int64(len(f.FAT)) && int64(s) < int64(f.NumSectors) && f.FAT[s] != FatSect {
			f.issue("fat", "FAT sector %d is marked %s instead of FATSECT", s, secName(f.FAT[s]))
		}
	}
	for _, s := range f.DIFATSectors {
		if int64(s) < int64(len(f.FAT)) && f.FAT[s] != DifSect {
			f.issue("difat", "DIFAT sector %d is marked %s instead of DIFSECT", s, secName(f.FAT[s]))
		}
	}
	if len(f.FAT) < f.NumSectors {
		f.issue("fat", "FAT covers %d sectors but the file has %d", len(f.FAT), f.NumSectors)
	}
	for i, v := range f.FAT {
		if i >= f.NumSectors {
			if v != FreeSect {
				f.issue("fat", "FAT[%d] = %s but the file has only %d sectors", i, secName(v), f.NumSectors)
			}
			continue
		}
		switch {
		case v == FatSect && f.owner[i] != fatOwner:
			f.issue("fat", "sector %d marked FATSECT but not listed in the DIFAT", i)
		case v == DifSect && f.owner[i] != difatOwner:
			f.issue("difat", "sector %d marked DIFSECT but not part of the DIFAT chain", i)
		case v > MaxRegSect && v != FatSect && v != DifSect && v != EndOfChain && v != FreeSect:
			f.issue("fat", "FAT[%d] has reserved value %#x", i, v)
		}
	}

	// ---- directory chain ----
	f.DirSectors = f.walkChain(h.FirstDirSector, "directory")
	if len(f.DirSectors) == 0 {
		return nil, errors.New("cfb: directory chain is unreadable: " + strings.Join(f.Issues, "; "))
	}
	if h.MajorVersion == 4 && int64(h.NumDirSectors) != int64(len(f.DirSectors)) {
		f.issue("header", "directory sector count %d but directory chain has %d sectors", h.NumDirSectors, len(f.DirSectors))
	}
	dirData := f.concat(f.DirSectors)
	f.Entries = make([]DirEntry, len(dirData)/dirEntrySize)
	for i := range f.Entries {
		rec := dirData[i*dirEntrySize : (i+1)*dirEntrySize]
		e := &f.Entries[i]
		e.ID = uint32(i)
		copy(e.RawName[:], rec[:64])
		e.NameLen = le.Uint16(rec[64:])
		e.Type = rec[66]
		e.Color = rec[67]
		e.Left = le.Uint32(rec[68:])
		e.Right = le.Uint32(rec[72:])
		e.Child = le.Uint32(rec[76:])
		copy(e.CLSID[:], rec[80:96])
		e.StateBits = le.Uint32(rec[96:])
		e.CTime = le.Uint64(rec[100:])
		e.MTime = le.Uint64(rec[108:])
		e.Start = le.Uint32(rec[116:])
		e.Size = le.Uint64(rec[120:])
		if h.MajorVersion == 3 {
			e.Size &= 0xFFFFFFFF // MS-CFB: ignore the high half for version 3
		}
		e.Name = string(utf16.Decode(e.Units()))
	}

	// ---- miniFAT chain ----
	if h.FirstMiniFATSector == FreeSect && h.NumMiniFATSectors == 0 {
		f.issue("minifat", "first miniFAT sector is FREESECT instead of ENDOFCHAIN")
	} else {
		f.MiniFATSectors = f.walkChain(h.FirstMiniFATSector, "miniFAT")
	}
	if int64(h.NumMiniFATSectors) != int64(len(f.MiniFATSectors)) {
		f.issue("header", "miniFAT sector count %d but miniFAT chain has %d sectors", h.NumMiniFATSectors, len(f.MiniFATSectors))
	}
	for _, s := range f.MiniFATSectors {
		buf := f.sector(s)
		for j := 0; j < epf; j++ {
			f.MiniFAT = append(f.MiniFAT, le.Uint32(buf[4*j:]))
		}
	}

	// ---- root entry and mini stream ----
	rootID := -1
	if f.Entries[0].Type == TypeRoot {
		rootID = 0
	}
	for i := range f.Entries {
		if f.Entries[i].Type != TypeRoot || i == 0 {
			continue
		}
		if rootID < 0 {
			rootID = i
			f.issue("dir", "root storage is entry %d instead of entry 0 (entry 0 has type %d)", i, f.Entries[0].Type)
		} else {
			f.issue("dir", "additional root-type entry %d", i)
		}
	}
	if rootID < 0 {
		return nil, errors.New("cfb: no root storage entry")
	}
	root := &f.Entries[rootID]
	root.Reachable = true
	f.checkName(root)
	if root.Left != NoStream || root.Right != NoStream {
		f.issue("dir", "root entry has siblings (left %s right %s)", secName(root.Left), secName(root.Right))
	}
	if root.CTime != 0 {
		f.issue("dir", "root entry creation time is not zero")
	}
	if root.Size == 0 {
		if root.Start != EndOfChain && root.Start != 0 && root.Start != FreeSect {
			f.issue("size", "root entry has empty mini stream but start sector %s", secName(root.Start))
		}
	} else {
		f.MiniStreamSectors = f.walkChain(root.Start, "mini stream")
		want := (root.Size + uint64(ss) - 1) / uint64(ss)
		if uint64(len(f.MiniStreamSectors)) != want {
			f.issue("size", "mini stream: size %d needs %d sectors but chain has %d", root.Size, want, len(f.MiniStreamSectors))
		}
		f.MiniStream = f.concat(f.MiniStreamSectors)
		if uint64(len(f.MiniStream)) > root.Size {
			f.MiniStream = f.MiniStream[:root.Size]
		}
		if root.Size%miniSectorSize != 0 {
			f.issue("size", "mini stream size %d is not a multiple of 64", root.Size)
		}
	}
	f.miniOwner = make([]int32, len(f.MiniFAT))
	for i, v := range f.MiniFAT {
		if (i+1)*miniSectorSize > len(f.MiniStream) && v != FreeSect {
			f.issue("minifat", "miniFAT[%d] = %s but the mini stream has only %d bytes", i, secName(v), len(f.MiniStream))
		}
		if v > MaxRegSect && v != EndOfChain && v != FreeSect {
			f.issue("minifat", "miniFAT[%d] has invalid value %s", i, secName(v))
		}
	}

	// ---- directory tree ----
	f.Root = &Node{Entry: root, Path: ""}
	f.readStorage(f.Root, 0)
	for i := range f.Entries {
		e := &f.Entries[i]
		if e.Reachable {
			continue
		}
		if e.Type != TypeUnallocated {
			f.issue("dir", "entry %d (%q, type %d) is not reachable from the root but not marked unallocated", i, e.Name, e.Type)
			continue
		}
		if e.Left != NoStream || e.Right != NoStream || e.Child != NoStream {
			f.issue("unused", "unallocated entry %d has sibling/child ids %s/%s/%s instead of NOSTREAM", i, secName(e.Left), secName(e.Right), secName(e.Child))
		}
		zero := e.NameLen == 0 && e.Color == 0 && e.CLSID == ([16]byte{}) && e.StateBits == 0 && e.CTime == 0 && e.MTime == 0 && e.Start == 0 && e.Size == 0 && e.RawName == ([64]byte{})
		if !zero {
			f.issue("unused", "unallocated entry %d is not zero-filled", i)
		}
	}

	// ---- leaks ----
	for i := 0; i < f.NumSectors && i < len(f.FAT); i++ {
		if v := f.FAT[i]; f.owner[i] == 0 && v != FreeSect && v != FatSect && v != DifSect {
			f.issue("leak", "sector %d is marked %s but not referenced by anything", i, secName(f.FAT[i]))
		}
	}
	for i, v := range f.MiniFAT {
		if f.miniOwner[i] == 0 && v != FreeSect && (i+1)*miniSectorSize <= len(f.MiniStream) {
			f.issue("leak", "mini sector %d is marked %s but not referenced by any stream", i, secName(v))
		}
	}
	if f.issueCount > len(f.Issues) {
		f.Issues[len(f.Issues)-1] = fmt.Sprintf("%s (%d issues in total)", f.Issues[len(f.Issues)-1], f.issueCount)
	}
	return f, nil
}

// checkName validates the name fields of an allocated entry.
func (f *File) checkName(e *DirEntry) {
	if e.NameLen < 2 || e.NameLen > 64 || e.NameLen%2 != 0 {
		f.issue("dir", "entry %d (%q): name length field %d invalid", e.ID, e.Name, e.NameLen)
		return
	}
	term := -1
	for i := 0; i < 32; i++ {
		if binary.LittleEndian.Uint16(e.RawName[2*i:]) == 0 {
			term = i
			break
		}
	}
	want := int(e.NameLen)/2 - 1
	if term != want {
		f.issue("dir", "entry %d (%q): name length field %d implies terminator at unit %d but first NUL is at %d", e.ID, e.Name, e.NameLen, want, term)
	}
	if want == 0 && e.Type != TypeUnallocated {
		f.issue("dir", "entry %d: empty name", e.ID)
	}
	for _, u := range e.Units() {
		switch u {
		case '/', '\\', ':', '!':
			f.issue("dir", "entry %d (%q): illegal character %q in name", e.ID, e.Name, rune(u))
		}
	}
}

type rbState struct {
	inorder []uint32
}

// sibling walks one sibling tree; it returns the black height of the subtree.
func (f *File) sibling(id uint32, where string, parentRed bool, st *rbState, depth int) int {
	if id == NoStream {
		return 0
	}
	if int64(id) >= int64(len(f.Entries)) {
		f.issue("dir", "%s: link to entry %d beyond the directory (%d entries)", where, id, len(f.Entries))
		return 0
	}
	e := &f.Entries[id]
	if e.Reachable {
		f.issue("dir", "%s: entry %d (%q) is reached more than once", where, id, e.Name)
		return 0
	}
	e.Reachable = true
	if e.Type != TypeStorage && e.Type != TypeStream {
		f.issue("dir", "%s: entry %d (%q) has object type %d", where, id, e.Name, e.Type)
	}
	if e.Color > 1 {
		f.issue("dir", "entry %d (%q): invalid color %d", id, e.Name, e.Color)
	}
	red := e.Color == ColorRed
	if red && parentRed {
		f.issue("tree-rb", "%s: red entry %d (%q) has a red parent", where, id, e.Name)
	}
	lh := f.sibling(e.Left, where, red, st, depth+1)
	st.inorder = append(st.inorder, id)
	rh := f.sibling(e.Right, where, red, st, depth+1)
	if lh != rh {
		f.issue("tree-rb", "%s: entry %d (%q): black height %d on the left, %d on the right", where, id, e.Name, lh, rh)
		if rh > lh {
			lh = rh
		}
	}
	if !red {
		lh++
	}
	return lh
}

func (f *File) readStorage(n *Node, depth int) {
	e := n.Entry
	where := fmt.Sprintf("storage %q", n.Path)
	if e.Child == NoStream {
		return
	}
	st := &rbState{}
	if int64(e.Child) < int64(len(f.Entries)) && f.Entries[e.Child].Color == ColorRed && !f.Entries[e.Child].Reachable {
		f.issue("tree-rb", "%s: root of the sibling tree (entry %d) is red", where, e.Child)
	}
	f.sibling(e.Child, where, false, st, 0)
	var prev *DirEntry
	for _, id := range st.inorder {
		c := &f.Entries[id]
		f.checkName(c)
		if prev != nil {
			switch cmp := CompareNames(prev.Units(), c.Units()); {
			case cmp == 0:
				f.issue("tree-order", "%s: entries %d (%q) and %d (%q) have equal names", where, prev.ID, prev.Name, c.ID, c.Name)
			case cmp > 0:
				f.issue("tree-order", "%s: entry %d (%q) sorts before entry %d (%q) in the tree but is greater", where, prev.ID, prev.Name, c.ID, c.Name)
			}
		}
		prev = c
		path := c.Name
		if n.Path != "" {
			path = n.Path + "/" + c.Name
		}
		cn := &Node{Entry: c, Path: path}
		switch c.Type {
		case TypeStorage:
			n.Children = append(n.Children, cn)
			if c.Size != 0 {
				f.issue("dir", "storage %q has size %d", path, c.Size)
			}
			if c.Start != 0 && c.Start != EndOfChain && c.Start != FreeSect {
				f.issue("dir", "storage %q has start sector %s", path, secName(c.Start))
			}
			f.readStorage(cn, depth+1)
		case TypeStream:
			n.Children = append(n.Children, cn)
			if c.Child != NoStream {
				f.issue("dir", "stream %q has child id %d", path, c.Child)
			}
			if c.CLSID != ([16]byte{}) {
				f.issue("dir", "stream %q has a non-zero CLSID", path)
			}
			if c.CTime != 0 || c.MTime != 0 {
				f.issue("dir", "stream %q has non-zero timestamps", path)
			}
			cn.Data = f.readStream(c, path)
		}
	}
}

func (f *File) readStream(e *DirEntry, path string) []byte {
	who := fmt.Sprintf("stream %q", path)
	if e.Size == 0 {
		if e.Start != EndOfChain && e.Start != 0 && e.Start != FreeSect {
			f.issue("size", "%s: empty but start sector is %s", who, secName(e.Start))
		}
		return []byte{}
	}
	cutoff := uint64(f.Header.MiniStreamCutoff)
	if e.Size >= cutoff {
		secs := f.walkChain(e.Start, who)
		want := (e.Size + uint64(f.SectorSize) - 1) / uint64(f.SectorSize)
		if uint64(len(secs)) != want {
			f.issue("size", "%s: size %d needs %d sectors but chain has %d", who, e.Size, want, len(secs))
		}
		data := f.concat(secs)
		if uint64(len(data)) > e.Size {
			data = data[:e.Size]
		}
		return data
	}
	id := f.newOwner(who)
	secs := f.walkMiniChain(e.Start, who, id)
	want := (e.Size + miniSectorSize - 1) / miniSectorSize
	if uint64(len(secs)) != want {
		f.issue("size", "%s: size %d needs %d mini sectors but chain has %d", who, e.Size, want, len(secs))
	}
	data := make([]byte, 0, len(secs)*miniSectorSize)
	for _, s := range secs {
		data = append(data, f.MiniStream[int(s)*miniSectorSize:int(s+1)*miniSectorSize]...)
	}
	if uint64(len(data)) > e.Size {
		data = data[:e.Size]
	}
	return data
}

// Walk calls fn for the root and every reachable entry, parents first,
// children in sibling-tree order.
func (f *File) Walk(fn func(n *Node)) {
	var rec func(n *Node)
	rec = func(n *Node) {
		fn(n)
		for _, c := range n.Children {
			rec(c)
		}
	}
	if f.Root != nil {
		rec(f.Root)
	}
}

// Items returns the logical content sorted by path (root first, Path "").
func (f *File) Items() []Item {
	var out []Item
	f.Walk(func(n *Node) {
		e := n.Entry
		it := Item{Path: n.Path, IsStorage: e.Type != TypeStream, CLSID: e.CLSID, StateBits: e.StateBits, CTime: e.CTime, MTime: e.MTime}
		if e.Type == TypeStream {
			it.Data = append([]byte{}, n.Data...)
		}
		out = append(out, it)
	})
	sortItems(out)
	return out
}
