// Package cfb is an independent generator, writer and validating reader for
// the Microsoft Compound File Binary format (MS-CFB, a.k.a. OLE2 / the MSI
// container). It deliberately shares no code with relic's lib/comdoc so that
// it can serve as an oracle for it.
package cfb

import (
	"fmt"
	"sort"
	"strings"
	"unicode"
	"unicode/utf16"
)

// Special sector / stream identifiers defined by MS-CFB.
const (
	MaxRegSect uint32 = 0xFFFFFFFA
	DifSect    uint32 = 0xFFFFFFFC
	FatSect    uint32 = 0xFFFFFFFD
	EndOfChain uint32 = 0xFFFFFFFE
	FreeSect   uint32 = 0xFFFFFFFF
	NoStream   uint32 = 0xFFFFFFFF
)

// Directory entry object types.
const (
	TypeUnallocated uint8 = 0
	TypeStorage     uint8 = 1
	TypeStream      uint8 = 2
	TypeRoot        uint8 = 5
)

// Directory entry colors.
const (
	ColorRed   uint8 = 0
	ColorBlack uint8 = 1
)

const (
	miniSectorSize  = 64
	miniCutoff      = 4096
	dirEntrySize    = 128
	headerDIFATSize = 109
)

// Names of the MSI signature streams (root level).
const (
	SigStreamName   = "\x05DigitalSignature"
	SigExStreamName = "\x05MsiDigitalSignatureEx"
)

// Entry is a storage or stream in a Spec.
type Entry struct {
	Name      string
	IsStorage bool
	CLSID     [16]byte
	StateBits uint32
	CTime     uint64
	MTime     uint64
	Data      []byte   // streams only
	Children  []*Entry // storages only, any order
}

// Tree styles for the sibling red-black trees written by Build.
const (
	TreeBalanced = 0 // perfectly balanced, red nodes only on an incomplete last level
	TreeLLRB     = 1 // left-leaning red-black tree built by insertion in an order drawn from TreeSeed
)

// FAT sector placements.
const (
	FATAtStart = 0
	FATAtEnd   = 1
	FATSpread  = 2
)

// Spec describes the logical content and the physical layout of a compound
// file to be written by Build.
type Spec struct {
	SectorShift uint   // 9 (v3) or 12 (v4)
	Root        *Entry // root storage; Name should be "Root Entry"

	// Fragment allocates stream/directory/miniFAT sectors non-contiguously:
	// round-robin across chains when LayoutSeed == 0, a seeded shuffle of all
	// sectors (chains may run backwards) otherwise. Mini sectors get the same
	// treatment inside the mini stream.
	Fragment bool
	// LayoutSeed also permutes the order of (contiguous) chains when Fragment
	// is false and LayoutSeed != 0.
	LayoutSeed uint64
	// FreeSectors injects one FREESECT sector per element, at position
	// p mod (n+1) of the sector sequence built so far (before FAT placement).
	FreeSectors []int
	// TrailingFree appends this many FREESECT sectors at the very end of the file.
	TrailingFree int
	// FreeMiniSectors injects free mini sectors into the mini stream the same
	// way (ignored when there is no mini stream).
	FreeMiniSectors []int
	// ExtraDirSectors appends whole directory sectors of unallocated entries.
	ExtraDirSectors int
	// UnusedDirEntriesInterleaved puts an unallocated entry after every other
	// allocated directory entry.
	UnusedDirEntriesInterleaved bool
	// DirOrderSeed != 0 permutes the stream IDs of the non-root entries
	// (default is depth-first pre-order).
	DirOrderSeed uint64
	// TreeStyle / TreeSeed select the shape of the sibling trees.
	TreeStyle int
	TreeSeed  uint64
	// FATPlacement selects where FAT and DIFAT sectors are put.
	FATPlacement int
	// ForceDIFAT pads the file with free sectors (in the middle of the data)
	// until more than 109 FAT sectors are needed. Only for SectorShift 9.
	ForceDIFAT bool
	// MinFATSectors is the general form of ForceDIFAT (ForceDIFAT == 110).
	MinFATSectors int
}

// encodeName returns the UTF-16 code units of a name (no terminator).
func encodeName(name string) []uint16 {
	return utf16.Encode([]rune(name))
}

// UpperUnit applies the simple upper-case mapping to one UTF-16 code unit.
// Surrogates and mappings that leave the BMP are returned unchanged.
func UpperUnit(u uint16) uint16 {
	if u >= 0xD800 && u <= 0xDFFF {
		return u
	}
	if u < 0x80 {
		if u >= 'a' && u <= 'z' {
			return u - 32
		}
		return u
	}
	r := unicode.ToUpper(rune(u))
	if r > 0xFFFF || (r >= 0xD800 && r <= 0xDFFF) || r < 0 {
		return u
	}
	return uint16(r)
}

// CompareNames implements the MS-CFB 2.6.4 sibling ordering on UTF-16 names
// (without terminator): the shorter name is less; equal lengths are compared
// code unit by code unit after upper-casing.
func CompareNames(a, b []uint16) int {
	if len(a) != len(b) {
		if len(a) < len(b) {
			return -1
		}
		return 1
	}
	for i := range a {
		x, y := UpperUnit(a[i]), UpperUnit(b[i])
		if x != y {
			if x < y {
				return -1
			}
			return 1
		}
	}
	return 0
}

func nameKey(units []uint16) string {
	var sb strings.Builder
	for _, u := range units {
		u = UpperUnit(u)
		sb.WriteByte(byte(u))
		sb.WriteByte(byte(u >> 8))
	}
	return sb.String()
}

func validateName(name string) ([]uint16, error) {
	units := encodeName(name)
	if len(units) == 0 || len(units) > 31 {
		return nil, fmt.Errorf("cfb: name %q has %d UTF-16 units (want 1..31)", name, len(units))
	}
	for _, u := range units {
		switch u {
		case 0, '/', '\\', ':', '!':
			return nil, fmt.Errorf("cfb: name %q contains illegal character %#x", name, u)
		}
	}
	return units, nil
}

// Item is the logical view of one storage or stream, used to compare a parsed
// file with a Spec.
type Item struct {
	Path      string // name components below the root joined by "/"; "" is the root
	IsStorage bool
	CLSID     [16]byte
	StateBits uint32
	CTime     uint64
	MTime     uint64
	Data      []byte
}

func sortItems(items []Item) {
	sort.SliceStable(items, func(i, j int) bool { return items[i].Path < items[j].Path })
}

// Items returns the logical content of the spec sorted by path (root first).
func (s *Spec) Items() []Item {
	var out []Item
	var walk func(e *Entry, path string)
	walk = func(e *Entry, path string) {
		it := Item{Path: path, IsStorage: e.IsStorage, CLSID: e.CLSID, StateBits: e.StateBits, CTime: e.CTime, MTime: e.MTime}
		if !e.IsStorage {
			it.Data = append([]byte{}, e.Data...)
		}
		out = append(out, it)
		for _, c := range e.Children {
			p := c.Name
			if path != "" {
				p = path + "/" + c.Name
			}
			walk(c, p)
		}
	}
	if s.Root != nil {
		r := *s.Root
		r.IsStorage = true
		walk(&r, "")
	}
	sortItems(out)
	return out
}

// ItemsEqual compares two item lists (as returned by Items) and describes the
// first difference.
func ItemsEqual(a, b []Item) (bool, string) {
	if len(a) != len(b) {
		return false, fmt.Sprintf("item count %d != %d", len(a), len(b))
	}
	for i := range a {
		x, y := a[i], b[i]
		switch {
		case x.Path != y.Path:
			return false, fmt.Sprintf("item %d: path %q != %q", i, x.Path, y.Path)
		case x.IsStorage != y.IsStorage:
			return false, fmt.Sprintf("%q: IsStorage %v != %v", x.Path, x.IsStorage, y.IsStorage)
		case x.CLSID != y.CLSID:
			return false, fmt.Sprintf("%q: CLSID %x != %x", x.Path, x.CLSID, y.CLSID)
		case x.StateBits != y.StateBits:
			return false, fmt.Sprintf("%q: state bits %#x != %#x", x.Path, x.StateBits, y.StateBits)
		case x.CTime != y.CTime || x.MTime != y.MTime:
			return false, fmt.Sprintf("%q: times %d/%d != %d/%d", x.Path, x.CTime, x.MTime, y.CTime, y.MTime)
		case string(x.Data) != string(y.Data):
			return false, fmt.Sprintf("%q: data differs (len %d vs %d)", x.Path, len(x.Data), len(y.Data))
		}
	}
	return true, ""
}

// Classes returns shape-class labels for coverage accounting.
func (s *Spec) Classes() []string {
	set := map[string]bool{}
	if s.SectorShift == 12 {
		set["ss4096"] = true
	} else {
		set["ss512"] = true
	}
	nStreams, nEntries := 0, 1
	mini := false
	var walk func(e *Entry, depth int)
	walk = func(e *Entry, depth int) {
		for _, c := range e.Children {
			nEntries++
			if c.IsStorage {
				set["nested"] = true
				if len(c.Children) == 0 {
					set["emptystorage"] = true
				}
				walk(c, depth+1)
				continue
			}
			nStreams++
			switch n := len(c.Data); {
			case n == 0:
				set["emptystream"] = true
			case n < miniCutoff:
				mini = true
			default:
				set["regular"] = true
				if n > 2<<s.SectorShift {
					set["multisector"] = true
				}
			}
			if c.Name == SigStreamName || c.Name == SigExStreamName {
				if depth == 0 {
					set["presigned"] = true
					if c.Name == SigExStreamName {
						set["presigned-ex"] = true
					}
				} else {
					set["nestedsig"] = true
				}
			}
		}
		if len(e.Children) >= 3 {
			set["tree3+"] = true
		}
	}
	if s.Root != nil {
		walk(s.Root, 0)
	}
	if mini {
		set["mini"] = true
	} else {
		set["nomini"] = true
	}
	if nStreams == 0 {
		set["nostreams"] = true
	}
	if s.Fragment {
		set["fragmented"] = true
	}
	if len(s.FreeSectors) > 0 || s.TrailingFree > 0 {
		set["freesect"] = true
	}
	if s.TrailingFree > 0 {
		set["trailingfree"] = true
	}
	if mini && len(s.FreeMiniSectors) > 0 {
		set["minifree"] = true
	}
	if s.ExtraDirSectors > 0 {
		set["dirpad"] = true
	}
	if s.UnusedDirEntriesInterleaved {
		set["dirholes"] = true
	}
	perSector := (1 << s.SectorShift) / dirEntrySize
	if !s.UnusedDirEntriesInterleaved && s.ExtraDirSectors == 0 && nEntries%perSector == 0 {
		set["dirfull"] = true
	}
	if s.DirOrderSeed != 0 {
		set["dirshuffled"] = true
	}
	if s.TreeStyle == TreeLLRB {
		set["llrb"] = true
	}
	if s.ForceDIFAT || s.MinFATSectors > headerDIFATSize {
		set["difat"] = true
	}
	switch s.FATPlacement {
	case FATAtEnd:
		set["fat-end"] = true
	case FATSpread:
		set["fat-spread"] = true
	}
	out := make([]string, 0, len(set))
	for k := range set {
		out = append(out, k)
	}
	sort.Strings(out)
	return out
}

// prng is a splitmix64 generator (deterministic, no math/rand).
type prng uint64

func (p *prng) next() uint64 {
	*p += 0x9E3779B97F4A7C15
	z := uint64(*p)
	z = (z ^ (z >> 30)) * 0xBF58476D1CE4E5B9
	z = (z ^ (z >> 27)) * 0x94D049BB133111EB
	return z ^ (z >> 31)
}

func (p *prng) intn(n int) int {
	if n <= 1 {
		return 0
	}
	return int(p.next() % uint64(n))
}

// permutation returns a seeded Fisher-Yates permutation of 0..n-1.
func permutation(n int, seed uint64) []int {
	p := prng(seed)
	out := make([]int, n)
	for i := range out {
		out[i] = i
	}
	for i := n - 1; i > 0; i-- {
		j := p.intn(i + 1)
		out[i], out[j] = out[j], out[i]
	}
	return out
}

// FillBytes returns n deterministic pseudo-random bytes derived from seed.
func FillBytes(n int, seed uint64) []byte {
	p := prng(seed)
	out := make([]byte, n)
	for i := 0; i < n; i += 8 {
		v := p.next()
		for j := 0; j < 8 && i+j < n; j++ {
			out[i+j] = byte(v >> (8 * j))
		}
	}
	return out
}
