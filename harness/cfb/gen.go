package cfb

import (
	"fmt"
	"unicode/utf16"

	"pgregory.net/rapid"
)

func chance(t *rapid.T, label string, pct int) bool {
	return rapid.IntRange(0, 99).Draw(t, label) < pct
}

func unitLen(s string) int { return len(utf16.Encode([]rune(s))) }

var (
	caseAlphabet = []rune{'a', 'b', 'A', 'B', 'z', 'Z', '_', '0', '9', '[', '~'}
	identChars   = []rune("abcdefghijklmnopqrstuvwxyzABCDEFGHIJKLMNOPQRSTUVWXYZ0123456789_. -")
	// Non-ASCII characters whose simple upper-case mapping is the same in every
	// Unicode version since 3.0, plus caseless ones (fullwidth, CJK, one
	// supplementary-plane character that needs a surrogate pair, and U+FFEE
	// which sorts after every surrogate as a code unit but before U+1F600 as a
	// code point).
	wideChars  = []rune{'é', 'É', 'ñ', 'Ñ', 'α', 'Α', 'д', 'Д', 0xFF21, 0xFF41, 0x1F600, 0xFFEE, 0x4E2D}
	knownNames = []string{"\x05SummaryInformation", "\x05DocumentSummaryInformation", "\x01CompObj", "WordDocument", "Workbook"}
	sizePoints = []int{0, 0, 1, 2, 63, 64, 65, 127, 128, 129, 511, 512, 513, 4095, 4096, 4097}
)

func genRunes(t *rapid.T, label string, alphabet []rune, lo, hi int) string {
	n := rapid.IntRange(lo, hi).Draw(t, label+"-len")
	out := make([]rune, n)
	for i := range out {
		out[i] = rapid.SampledFrom(alphabet).Draw(t, label+"-ch")
	}
	return string(out)
}

// genRawName draws a candidate entry name (1..31 UTF-16 units).
func genRawName(t *rapid.T, label string) string {
	switch rapid.IntRange(0, 9).Draw(t, label+"-kind") {
	case 0, 1, 2:
		// tiny alphabet: many names that differ only by case / length / order
		return genRunes(t, label, caseAlphabet, 1, 4)
	case 3, 4:
		// MSI-style packed table/stream names
		n := rapid.IntRange(1, 10).Draw(t, label+"-len")
		var out []rune
		if rapid.Bool().Draw(t, label+"-table") {
			out = append(out, 0x4840)
		}
		for i := 0; i < n; i++ {
			out = append(out, rune(rapid.IntRange(0x3800, 0x483F).Draw(t, label+"-ch")))
		}
		return string(out)
	case 5:
		return rapid.SampledFrom(knownNames).Draw(t, label+"-known")
	case 6:
		return genRunes(t, label, identChars, 28, 31)
	case 7:
		s := genRunes(t, label, wideChars, 1, 6)
		for unitLen(s) > 31 {
			r := []rune(s)
			s = string(r[:len(r)-1])
		}
		return s
	default:
		return genRunes(t, label, identChars, 1, 12)
	}
}

type genStorage struct {
	e     *Entry
	depth int
	seen  map[string]bool
}

// add inserts a child, making the name unique among its siblings under the
// case-insensitive MS-CFB comparison.
func (g *genStorage) add(e *Entry) {
	name := e.Name
	for i := 0; g.seen[nameKey(encodeName(name))]; i++ {
		base := []rune(e.Name)
		suffix := fmt.Sprintf("%d", i)
		for unitLen(string(base))+len(suffix) > 31 {
			base = base[:len(base)-1]
		}
		name = string(base) + suffix
	}
	e.Name = name
	g.seen[nameKey(encodeName(name))] = true
	g.e.Children = append(g.e.Children, e)
}

func genCLSID(t *rapid.T, label string) [16]byte {
	var c [16]byte
	if chance(t, label+"-zero", 20) {
		return c
	}
	copy(c[:], FillBytes(16, rapid.Uint64().Draw(t, label)))
	return c
}

// Gen draws a varied compound file specification.
func Gen(t *rapid.T) *Spec {
	s := &Spec{SectorShift: rapid.SampledFrom([]uint{9, 12}).Draw(t, "sectorShift")}
	ss := 1 << s.SectorShift
	root := &Entry{Name: "Root Entry", IsStorage: true, CLSID: genCLSID(t, "rootCLSID")}
	if rapid.Bool().Draw(t, "rootState") {
		root.StateBits = rapid.Uint32().Draw(t, "rootStateBits")
	}
	if rapid.Bool().Draw(t, "rootMTimeSet") {
		root.MTime = rapid.Uint64().Draw(t, "rootMTime")
	}
	s.Root = root
	stors := []*genStorage{{e: root, seen: map[string]bool{}}}

	// storages, nesting depth up to 3
	nStor := 0
	if rapid.Bool().Draw(t, "haveStorages") {
		nStor = rapid.IntRange(1, 5).Draw(t, "nStorages")
	}
	for i := 0; i < nStor; i++ {
		var cands []*genStorage
		for _, g := range stors {
			if g.depth < 3 {
				cands = append(cands, g)
			}
		}
		// bias towards the most recently created storage to reach depth 3
		var parent *genStorage
		if chance(t, "deepen", 50) {
			parent = cands[len(cands)-1]
		} else {
			parent = cands[rapid.IntRange(0, len(cands)-1).Draw(t, "storParent")]
		}
		e := &Entry{
			Name:      genRawName(t, "storName"),
			IsStorage: true,
			CLSID:     genCLSID(t, "storCLSID"),
		}
		if rapid.Bool().Draw(t, "storMeta") {
			e.StateBits = rapid.Uint32().Draw(t, "storState")
			e.CTime = rapid.Uint64().Draw(t, "storCTime")
			e.MTime = rapid.Uint64().Draw(t, "storMTime")
		}
		parent.add(e)
		stors = append(stors, &genStorage{e: e, depth: parent.depth + 1, seen: map[string]bool{}})
	}

	// streams
	nStreams := rapid.IntRange(0, 12).Draw(t, "nStreams")
	bigLeft := 2
	for i := 0; i < nStreams; i++ {
		var size int
		switch k := rapid.IntRange(0, 9).Draw(t, "sizeKind"); {
		case k <= 4:
			size = rapid.SampledFrom(sizePoints).Draw(t, "sizePoint")
		case k == 5:
			size = rapid.IntRange(0, 300).Draw(t, "sizeSmall")
		case k == 6:
			size = rapid.IntRange(3900, 4300).Draw(t, "sizeCutoff")
		case k == 7:
			size = rapid.SampledFrom([]int{ss - 1, ss, ss + 1, 2*ss - 1, 2 * ss, 2*ss + 1}).Draw(t, "sizeSector")
		default:
			if bigLeft > 0 {
				bigLeft--
				size = rapid.IntRange(4097, 40*1024).Draw(t, "sizeBig")
			} else {
				size = rapid.IntRange(0, 4200).Draw(t, "sizeAny")
			}
		}
		e := &Entry{
			Name: genRawName(t, "streamName"),
			Data: FillBytes(size, rapid.Uint64().Draw(t, "dataSeed")),
		}
		if chance(t, "streamState", 10) {
			// SHOULD be zero for streams; tolerated by every reader, and it
			// matters for the MsiDigitalSignatureEx metadata hash.
			e.StateBits = rapid.Uint32().Draw(t, "streamStateBits")
		}
		parent := stors[0]
		if len(stors) > 1 && rapid.Bool().Draw(t, "streamNested") {
			parent = stors[rapid.IntRange(1, len(stors)-1).Draw(t, "streamParent")]
		}
		parent.add(e)
	}

	// streams named like the members relic's MSI-to-tar transform adds for its own use
	if chance(t, "tarMetaNames", 4) {
		stors[0].add(&Entry{Name: "__exmeta", Data: FillBytes(rapid.SampledFrom([]int{0, 37, 5000}).Draw(t, "exmetaSize"), rapid.Uint64().Draw(t, "exmetaSeed"))})
		if rapid.Bool().Draw(t, "storageUIDName") {
			stors[len(stors)-1].add(&Entry{Name: "__storage_uid", Data: FillBytes(16, rapid.Uint64().Draw(t, "uidSeed"))})
		}
	}
	// pre-existing signature streams
	if chance(t, "presigned", 25) {
		sz := rapid.SampledFrom([]int{1, 1500, 4095, 4096, 6000}).Draw(t, "sigSize")
		stors[0].add(&Entry{Name: SigStreamName, Data: FillBytes(sz, rapid.Uint64().Draw(t, "sigSeed"))})
		if rapid.Bool().Draw(t, "presignedEx") {
			n := rapid.SampledFrom([]int{20, 32}).Draw(t, "sigExSize")
			stors[0].add(&Entry{Name: SigExStreamName, Data: FillBytes(n, rapid.Uint64().Draw(t, "sigExSeed"))})
		}
	}
	if len(stors) > 1 && chance(t, "nestedsig", 5) {
		g := stors[rapid.IntRange(1, len(stors)-1).Draw(t, "nestedSigParent")]
		g.add(&Entry{Name: SigStreamName, Data: FillBytes(100, rapid.Uint64().Draw(t, "nestedSigSeed"))})
	}

	// layout knobs
	s.Fragment = rapid.Bool().Draw(t, "fragment")
	if rapid.Bool().Draw(t, "layoutSeeded") {
		s.LayoutSeed = rapid.Uint64Min(1).Draw(t, "layoutSeed")
	}
	if rapid.Bool().Draw(t, "freeSectors") {
		s.FreeSectors = rapid.SliceOfN(rapid.IntRange(0, 200), 1, 6).Draw(t, "freeSectorPos")
	}
	if chance(t, "trailingFree", 25) {
		s.TrailingFree = rapid.IntRange(1, 3).Draw(t, "trailingFreeN")
	}
	if rapid.Bool().Draw(t, "freeMini") {
		s.FreeMiniSectors = rapid.SliceOfN(rapid.IntRange(0, 300), 1, 5).Draw(t, "freeMiniPos")
	}
	if chance(t, "dirpad", 25) {
		s.ExtraDirSectors = rapid.IntRange(1, 2).Draw(t, "extraDirSectors")
	}
	s.UnusedDirEntriesInterleaved = chance(t, "dirHoles", 25)
	if rapid.Bool().Draw(t, "dirShuffled") {
		s.DirOrderSeed = rapid.Uint64Min(1).Draw(t, "dirOrderSeed")
	}
	if rapid.Bool().Draw(t, "llrb") {
		s.TreeStyle = TreeLLRB
		s.TreeSeed = rapid.Uint64().Draw(t, "treeSeed")
	}
	s.FATPlacement = rapid.IntRange(0, 2).Draw(t, "fatPlacement")
	if s.SectorShift == 9 && chance(t, "forceDIFAT", 2) {
		s.ForceDIFAT = true
	}
	return s
}
