package cfb

import (
	"encoding/binary"
	"errors"
	"fmt"
	"sort"
)

var signature = [8]byte{0xD0, 0xCF, 0x11, 0xE0, 0xA1, 0xB1, 0x1A, 0xE1}

// Filler bytes used by Build for bytes whose value MS-CFB does not define.
// They are deliberately non-zero so that readers which read past the end of a
// stream or into free sectors produce visibly wrong data.
const (
	fillStreamTail = 0xA5 // unused tail of a stream's last (mini) sector
	fillFreeSector = 0xDF // content of FREESECT sectors and free mini sectors
)

// bent is a directory entry under construction.
type bent struct {
	e      *Entry
	units  []uint16
	typ    uint8
	id     uint32
	kids   []*bent
	left   uint32
	right  uint32
	child  uint32
	black  bool
	start  uint32
	size   uint64
	chain  int // index into chains for regular streams, -1 otherwise
	miniID int // index into mini streams, -1 otherwise
}

// tnode is a node of a sibling tree under construction; key is the rank of
// the child in sorted order.
type tnode struct {
	key         int
	left, right *tnode
	red         bool
}

func balancedTree(lo, hi, depth, redDepth int) *tnode {
	if lo >= hi {
		return nil
	}
	// left gets floor((n-1)/2), right gets ceil((n-1)/2)
	mid := lo + (hi-lo-1)/2
	n := &tnode{key: mid, red: depth == redDepth}
	n.left = balancedTree(lo, mid, depth+1, redDepth)
	n.right = balancedTree(mid+1, hi, depth+1, redDepth)
	return n
}

func isRed(n *tnode) bool { return n != nil && n.red }

func llrbInsert(h *tnode, key int) *tnode {
	if h == nil {
		return &tnode{key: key, red: true}
	}
	if key < h.key {
		h.left = llrbInsert(h.left, key)
	} else {
		h.right = llrbInsert(h.right, key)
	}
	if isRed(h.right) && !isRed(h.left) {
		x := h.right
		h.right = x.left
		x.left = h
		x.red = h.red
		h.red = true
		h = x
	}
	if isRed(h.left) && isRed(h.left.left) {
		x := h.left
		h.left = x.right
		x.right = h
		x.red = h.red
		h.red = true
		h = x
	}
	if isRed(h.left) && isRed(h.right) {
		h.red = true
		h.left.red = false
		h.right.red = false
	}
	return h
}

// buildTree returns a valid red-black tree over ranks 0..n-1.
func buildTree(n int, style int, seed uint64) *tnode {
	if n == 0 {
		return nil
	}
	if style == TreeLLRB {
		var root *tnode
		for _, k := range permutation(n, seed) {
			root = llrbInsert(root, k)
			root.red = false
		}
		return root
	}
	height := 0
	for (1<<height)-1 < n {
		height++
	}
	redDepth := -1
	if n != (1<<height)-1 {
		redDepth = height - 1
	}
	return balancedTree(0, n, 0, redDepth)
}

type slotKind uint8

const (
	slotData slotKind = iota
	slotFree
	slotFAT
	slotDIFAT
)

type slot struct {
	kind  slotKind
	chain int
	idx   int
}

func ceilDiv(a, b int) int { return (a + b - 1) / b }

// arrange orders the (chain, index) pairs of a set of chains.
func arrange(lens []int, fragment bool, seed uint64) []slot {
	var out []slot
	if !fragment {
		order := make([]int, len(lens))
		for i := range order {
			order[i] = i
		}
		if seed != 0 {
			order = permutation(len(lens), seed)
		}
		for _, c := range order {
			for i := 0; i < lens[c]; i++ {
				out = append(out, slot{slotData, c, i})
			}
		}
		return out
	}
	if seed == 0 {
		for i := 0; ; i++ {
			more := false
			for c, n := range lens {
				if i < n {
					out = append(out, slot{slotData, c, i})
					more = true
				}
			}
			if !more {
				return out
			}
		}
	}
	for c, n := range lens {
		for i := 0; i < n; i++ {
			out = append(out, slot{slotData, c, i})
		}
	}
	perm := permutation(len(out), seed)
	shuffled := make([]slot, len(out))
	for i, p := range perm {
		shuffled[i] = out[p]
	}
	return shuffled
}

func insertFree(slots []slot, positions []int) []slot {
	for _, p := range positions {
		n := len(slots) + 1
		pos := ((p % n) + n) % n
		slots = append(slots, slot{})
		copy(slots[pos+1:], slots[pos:])
		slots[pos] = slot{kind: slotFree}
	}
	return slots
}

// Build writes the compound file described by s.
func Build(s *Spec) ([]byte, error) {
	if s == nil || s.Root == nil {
		return nil, errors.New("cfb: nil spec or root")
	}
	if s.SectorShift != 9 && s.SectorShift != 12 {
		return nil, fmt.Errorf("cfb: sector shift %d not supported", s.SectorShift)
	}
	ss := 1 << s.SectorShift
	epf := ss / 4 // FAT entries per sector
	minFAT := s.MinFATSectors
	if s.ForceDIFAT && minFAT < headerDIFATSize+1 {
		minFAT = headerDIFATSize + 1
	}
	if minFAT > headerDIFATSize && s.SectorShift != 9 {
		return nil, errors.New("cfb: ForceDIFAT/MinFATSectors>109 is only supported for 512-byte sectors")
	}

	// ---- flatten the entry tree (depth-first pre-order) ----
	rootName := s.Root.Name
	if rootName == "" {
		rootName = "Root Entry"
	}
	rootUnits, err := validateName(rootName)
	if err != nil {
		return nil, err
	}
	root := &bent{e: s.Root, units: rootUnits, typ: TypeRoot, chain: -1, miniID: -1}
	all := []*bent{root}
	var flatten func(b *bent, depth int) error
	flatten = func(b *bent, depth int) error {
		if depth > 64 {
			return errors.New("cfb: storage nesting too deep")
		}
		seen := map[string]bool{}
		for _, c := range b.e.Children {
			if c == nil {
				return errors.New("cfb: nil child entry")
			}
			units, err := validateName(c.Name)
			if err != nil {
				return err
			}
			key := nameKey(units)
			if seen[key] {
				return fmt.Errorf("cfb: duplicate sibling name %q (case-insensitive)", c.Name)
			}
			seen[key] = true
			cb := &bent{e: c, units: units, typ: TypeStream, chain: -1, miniID: -1}
			if c.IsStorage {
				cb.typ = TypeStorage
			} else if len(c.Children) > 0 {
				return fmt.Errorf("cfb: stream %q has children", c.Name)
			}
			b.kids = append(b.kids, cb)
			all = append(all, cb)
			if c.IsStorage {
				if err := flatten(cb, depth+1); err != nil {
					return err
				}
			}
		}
		return nil
	}
	if err := flatten(root, 0); err != nil {
		return nil, err
	}

	// ---- assign stream IDs (directory slots) ----
	order := all
	if s.DirOrderSeed != 0 && len(all) > 2 {
		order = []*bent{root}
		for _, p := range permutation(len(all)-1, s.DirOrderSeed) {
			order = append(order, all[1+p])
		}
	}
	var dirSlots []*bent // nil == unallocated
	for i, b := range order {
		b.id = uint32(len(dirSlots))
		dirSlots = append(dirSlots, b)
		if s.UnusedDirEntriesInterleaved && i%2 == 0 {
			dirSlots = append(dirSlots, nil)
		}
	}
	perDirSector := ss / dirEntrySize
	for len(dirSlots)%perDirSector != 0 {
		dirSlots = append(dirSlots, nil)
	}
	for i := 0; i < s.ExtraDirSectors*perDirSector; i++ {
		dirSlots = append(dirSlots, nil)
	}

	// ---- sibling trees ----
	treeSeed := s.TreeSeed
	for _, b := range all {
		b.left, b.right, b.child = NoStream, NoStream, NoStream
		b.black = true
	}
	for _, b := range all {
		if len(b.kids) == 0 {
			continue
		}
		sorted := append([]*bent{}, b.kids...)
		sort.SliceStable(sorted, func(i, j int) bool { return CompareNames(sorted[i].units, sorted[j].units) < 0 })
		treeSeed += 0x1234567
		t := buildTree(len(sorted), s.TreeStyle, treeSeed)
		var link func(n *tnode) uint32
		link = func(n *tnode) uint32 {
			if n == nil {
				return NoStream
			}
			e := sorted[n.key]
			e.black = !n.red
			e.left = link(n.left)
			e.right = link(n.right)
			return e.id
		}
		b.child = link(t)
	}

	// ---- mini stream ----
	var miniStreams []*bent
	var chainLens []int    // in sectors, per chain
	var chainData [][]byte // payload per chain (multiple of ss)
	var chainOwner []*bent // regular stream owning the chain (nil for dir/minifat/ministream)
	const (
		chDir = iota
		chMiniFAT
		chMiniStream
		chFirstStream
	)
	chainLens = make([]int, chFirstStream)
	chainData = make([][]byte, chFirstStream)
	chainOwner = make([]*bent, chFirstStream)
	for _, b := range all {
		if b.typ != TypeStream {
			continue
		}
		n := len(b.e.Data)
		b.size = uint64(n)
		b.start = EndOfChain
		switch {
		case n == 0:
		case n < miniCutoff:
			b.miniID = len(miniStreams)
			miniStreams = append(miniStreams, b)
		default:
			nsec := ceilDiv(n, ss)
			buf := make([]byte, nsec*ss)
			copy(buf, b.e.Data)
			for i := n; i < len(buf); i++ {
				buf[i] = fillStreamTail
			}
			b.chain = len(chainLens)
			chainLens = append(chainLens, nsec)
			chainData = append(chainData, buf)
			chainOwner = append(chainOwner, b)
		}
	}
	root.start = EndOfChain
	if len(miniStreams) > 0 {
		lens := make([]int, len(miniStreams))
		for i, b := range miniStreams {
			lens[i] = ceilDiv(len(b.e.Data), miniSectorSize)
		}
		mseed := s.LayoutSeed
		if mseed != 0 {
			mseed ^= 0x6d696e69
		}
		mslots := arrange(lens, s.Fragment, mseed)
		mslots = insertFree(mslots, s.FreeMiniSectors)
		nMini := len(mslots)
		miniFAT := make([]uint32, ceilDiv(nMini, epf)*epf)
		for i := range miniFAT {
			miniFAT[i] = FreeSect
		}
		miniData := make([]byte, ceilDiv(nMini*miniSectorSize, ss)*ss)
		for i := range miniData {
			miniData[i] = fillFreeSector
		}
		// position of every (stream, part)
		pos := make([][]int, len(miniStreams))
		for i := range pos {
			pos[i] = make([]int, lens[i])
		}
		for p, sl := range mslots {
			if sl.kind == slotData {
				pos[sl.chain][sl.idx] = p
			}
		}
		for i, b := range miniStreams {
			b.start = uint32(pos[i][0])
			for j, p := range pos[i] {
				if j+1 < len(pos[i]) {
					miniFAT[p] = uint32(pos[i][j+1])
				} else {
					miniFAT[p] = EndOfChain
				}
				chunk := miniData[p*miniSectorSize : (p+1)*miniSectorSize]
				for k := range chunk {
					chunk[k] = fillStreamTail
				}
				lo := j * miniSectorSize
				hi := lo + miniSectorSize
				if hi > len(b.e.Data) {
					hi = len(b.e.Data)
				}
				copy(chunk, b.e.Data[lo:hi])
			}
		}
		root.size = uint64(nMini * miniSectorSize)
		mfBytes := make([]byte, len(miniFAT)*4)
		for i, v := range miniFAT {
			binary.LittleEndian.PutUint32(mfBytes[i*4:], v)
		}
		chainLens[chMiniFAT] = len(mfBytes) / ss
		chainData[chMiniFAT] = mfBytes
		chainLens[chMiniStream] = len(miniData) / ss
		chainData[chMiniStream] = miniData
	}
	chainLens[chDir] = len(dirSlots) / perDirSector

	// ---- sector layout ----
	slots := arrange(chainLens, s.Fragment, s.LayoutSeed)
	slots = insertFree(slots, s.FreeSectors)
	if s.TrailingFree < 0 {
		return nil, errors.New("cfb: negative TrailingFree")
	}
	if minFAT > 0 {
		need := (minFAT-1)*epf + 1 - (len(slots) + s.TrailingFree)
		if need > 0 {
			mid := len(slots) / 2
			padded := make([]slot, 0, len(slots)+need)
			padded = append(padded, slots[:mid]...)
			for i := 0; i < need; i++ {
				padded = append(padded, slot{kind: slotFree})
			}
			padded = append(padded, slots[mid:]...)
			slots = padded
		}
	}
	nFAT, nDIFAT := 0, 0
	for {
		total := len(slots) + s.TrailingFree + nFAT + nDIFAT
		f := ceilDiv(total, epf)
		d := 0
		if f > headerDIFATSize {
			d = ceilDiv(f-headerDIFATSize, epf-1)
		}
		if f == nFAT && d == nDIFAT {
			break
		}
		nFAT, nDIFAT = f, d
	}
	meta := make([]slot, 0, nFAT+nDIFAT)
	for i := 0; i < nFAT; i++ {
		meta = append(meta, slot{kind: slotFAT, idx: i})
	}
	for i := 0; i < nDIFAT; i++ {
		meta = append(meta, slot{kind: slotDIFAT, idx: i})
	}
	final := make([]slot, 0, len(slots)+len(meta)+s.TrailingFree)
	switch s.FATPlacement {
	case FATAtEnd:
		final = append(final, slots...)
		final = append(final, meta...)
	case FATSpread:
		mi := 0
		for i, sl := range slots {
			for mi < len(meta) && (mi+1)*len(slots)/(len(meta)+1) <= i {
				final = append(final, meta[mi])
				mi++
			}
			final = append(final, sl)
		}
		final = append(final, meta[mi:]...)
	default:
		final = append(final, meta...)
		final = append(final, slots...)
	}
	for i := 0; i < s.TrailingFree; i++ {
		final = append(final, slot{kind: slotFree})
	}
	total := len(final)
	if uint64(total) > uint64(MaxRegSect) {
		return nil, errors.New("cfb: too many sectors")
	}

	// ---- FAT ----
	fat := make([]uint32, nFAT*epf)
	for i := range fat {
		fat[i] = FreeSect
	}
	chainPos := make([][]uint32, len(chainLens))
	for c, n := range chainLens {
		chainPos[c] = make([]uint32, n)
	}
	fatPos := make([]uint32, nFAT)
	difatPos := make([]uint32, nDIFAT)
	for sec, sl := range final {
		switch sl.kind {
		case slotData:
			chainPos[sl.chain][sl.idx] = uint32(sec)
		case slotFAT:
			fatPos[sl.idx] = uint32(sec)
			fat[sec] = FatSect
		case slotDIFAT:
			difatPos[sl.idx] = uint32(sec)
			fat[sec] = DifSect
		}
	}
	chainStart := make([]uint32, len(chainLens))
	for c, ps := range chainPos {
		chainStart[c] = EndOfChain
		for i, p := range ps {
			if i == 0 {
				chainStart[c] = p
			}
			if i+1 < len(ps) {
				fat[p] = ps[i+1]
			} else {
				fat[p] = EndOfChain
			}
		}
	}
	for c := chFirstStream; c < len(chainLens); c++ {
		chainOwner[c].start = chainStart[c]
	}
	if len(miniStreams) > 0 {
		root.start = chainStart[chMiniStream]
	}

	// ---- directory payload ----
	dir := make([]byte, len(dirSlots)*dirEntrySize)
	for i, b := range dirSlots {
		rec := dir[i*dirEntrySize : (i+1)*dirEntrySize]
		if b == nil {
			binary.LittleEndian.PutUint32(rec[68:], NoStream)
			binary.LittleEndian.PutUint32(rec[72:], NoStream)
			binary.LittleEndian.PutUint32(rec[76:], NoStream)
			continue
		}
		for j, u := range b.units {
			binary.LittleEndian.PutUint16(rec[j*2:], u)
		}
		binary.LittleEndian.PutUint16(rec[64:], uint16(2*(len(b.units)+1)))
		rec[66] = b.typ
		if b.black {
			rec[67] = ColorBlack
		} else {
			rec[67] = ColorRed
		}
		binary.LittleEndian.PutUint32(rec[68:], b.left)
		binary.LittleEndian.PutUint32(rec[72:], b.right)
		binary.LittleEndian.PutUint32(rec[76:], b.child)
		copy(rec[80:96], b.e.CLSID[:])
		binary.LittleEndian.PutUint32(rec[96:], b.e.StateBits)
		binary.LittleEndian.PutUint64(rec[100:], b.e.CTime)
		binary.LittleEndian.PutUint64(rec[108:], b.e.MTime)
		start := b.start
		if b.typ == TypeStorage {
			start = 0
		}
		binary.LittleEndian.PutUint32(rec[116:], start)
		binary.LittleEndian.PutUint64(rec[120:], b.size)
	}
	chainData[chDir] = dir

	// ---- emit ----
	out := make([]byte, (total+1)*ss)
	hdr := out[:512]
	copy(hdr[0:8], signature[:])
	binary.LittleEndian.PutUint16(hdr[24:], 0x003E)
	major := uint16(3)
	if s.SectorShift == 12 {
		major = 4
	}
	binary.LittleEndian.PutUint16(hdr[26:], major)
	binary.LittleEndian.PutUint16(hdr[28:], 0xFFFE)
	binary.LittleEndian.PutUint16(hdr[30:], uint16(s.SectorShift))
	binary.LittleEndian.PutUint16(hdr[32:], 6)
	if major == 4 {
		binary.LittleEndian.PutUint32(hdr[40:], uint32(chainLens[chDir]))
	}
	binary.LittleEndian.PutUint32(hdr[44:], uint32(nFAT))
	binary.LittleEndian.PutUint32(hdr[48:], chainStart[chDir])
	binary.LittleEndian.PutUint32(hdr[52:], 0)
	binary.LittleEndian.PutUint32(hdr[56:], miniCutoff)
	binary.LittleEndian.PutUint32(hdr[60:], chainStart[chMiniFAT])
	binary.LittleEndian.PutUint32(hdr[64:], uint32(chainLens[chMiniFAT]))
	if nDIFAT > 0 {
		binary.LittleEndian.PutUint32(hdr[68:], difatPos[0])
	} else {
		binary.LittleEndian.PutUint32(hdr[68:], EndOfChain)
	}
	binary.LittleEndian.PutUint32(hdr[72:], uint32(nDIFAT))
	for i := 0; i < headerDIFATSize; i++ {
		v := FreeSect
		if i < nFAT {
			v = fatPos[i]
		}
		binary.LittleEndian.PutUint32(hdr[76+4*i:], v)
	}
	sector := func(n int) []byte { return out[(n+1)*ss : (n+2)*ss] }
	for sec, sl := range final {
		buf := sector(sec)
		switch sl.kind {
		case slotData:
			copy(buf, chainData[sl.chain][sl.idx*ss:(sl.idx+1)*ss])
		case slotFree:
			for i := range buf {
				buf[i] = fillFreeSector
			}
		case slotFAT:
			for i := 0; i < epf; i++ {
				binary.LittleEndian.PutUint32(buf[4*i:], fat[sl.idx*epf+i])
			}
		case slotDIFAT:
			for i := 0; i < epf-1; i++ {
				v := FreeSect
				if k := headerDIFATSize + sl.idx*(epf-1) + i; k < nFAT {
					v = fatPos[k]
				}
				binary.LittleEndian.PutUint32(buf[4*i:], v)
			}
			next := EndOfChain
			if sl.idx+1 < nDIFAT {
				next = difatPos[sl.idx+1]
			}
			binary.LittleEndian.PutUint32(buf[4*(epf-1):], next)
		}
	}
	return out, nil
}
