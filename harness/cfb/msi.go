package cfb

import (
	"bytes"
	"crypto"
	_ "crypto/md5" // make the usual Authenticode hashes available
	_ "crypto/sha1"
	_ "crypto/sha256"
	_ "crypto/sha512"
	"encoding/binary"
	"sort"
)

// msiHashCompare is osslsigncode's dirent_cmp_hash: memcmp of the raw
// UTF-16LE name bytes (name length field, i.e. including the terminator) over
// the shorter length; on a tie "the longer wins" (sorts first). Because the
// terminator of the shorter name takes part in the memcmp and a name cannot
// contain U+0000, the tie branch is only reachable for equal names; in effect
// a name that is a proper prefix of another sorts first.
func msiHashCompare(a, b *DirEntry) int {
	la, lb := int(a.NameLen), int(b.NameLen)
	if la > 64 {
		la = 64
	}
	if lb > 64 {
		lb = 64
	}
	n := la
	if lb < n {
		n = lb
	}
	if c := bytes.Compare(a.RawName[:n], b.RawName[:n]); c != 0 {
		return c
	}
	switch {
	case la > lb:
		return -1
	case la < lb:
		return 1
	}
	return 0
}

// MSIHashOrder returns the children of a storage node in the order in which
// the MSI Authenticode digest visits them.
func MSIHashOrder(n *Node) []*Node {
	out := append([]*Node{}, n.Children...)
	sort.SliceStable(out, func(i, j int) bool { return msiHashCompare(out[i].Entry, out[j].Entry) < 0 })
	return out
}

func isSigStream(n *Node) bool {
	return n.Entry.Name == SigStreamName || n.Entry.Name == SigExStreamName
}

// MSIDigestInput returns the exact byte string that is hashed for the
// (non-extended) Authenticode MSI digest, per the algorithm of
// osslsigncode/msisip: for each storage, children in MSIHashOrder; stream
// contents are appended, storages are recursed into, and after the children of
// a storage its 16-byte CLSID is appended. The two signature streams are
// skipped at the root level only (exact, case-sensitive name match).
func MSIDigestInput(f *File) []byte {
	var buf bytes.Buffer
	var rec func(n *Node, isRoot bool)
	rec = func(n *Node, isRoot bool) {
		for _, c := range MSIHashOrder(n) {
			if isRoot && isSigStream(c) {
				continue
			}
			switch c.Entry.Type {
			case TypeStream:
				buf.Write(c.Data)
			case TypeStorage:
				rec(c, false)
			}
		}
		buf.Write(n.Entry.CLSID[:])
	}
	if f.Root != nil {
		rec(f.Root, true)
	}
	return buf.Bytes()
}

// MSIDigest is the non-extended Authenticode MSI digest (the value found in
// SpcIndirectDataContent.messageDigest when no MsiDigitalSignatureEx exists).
func MSIDigest(f *File, h crypto.Hash) []byte {
	d := h.New()
	d.Write(MSIDigestInput(f))
	return d.Sum(nil)
}

// MSIPrehashInput returns the metadata byte string whose hash is the content
// of the "\x05MsiDigitalSignatureEx" stream.
//
// CONFIDENCE: MEDIUM. This is written from my recollection of osslsigncode's
// msi.c (prehash_metadata / msi_prehash_dir); there is no public Microsoft
// specification. relic's implementation (which I read while learning which
// CFB subset relic handles) has the same structure, so this function is NOT a
// fully independent oracle for field selection; it is independent only with
// respect to directory parsing, child ordering and the root-only skip rule.
// Per entry, in order:
//   - name bytes without terminator (not for the root entry)
//   - CLSID (root and storages) or the low 4 bytes of the size (streams)
//   - state bits (4 bytes)
//   - creation and modification time (8+8 bytes; not for the root entry)
//
// A storage contributes its own metadata first, then its children in
// MSIHashOrder (streams: metadata; storages: recursion). Signature streams
// are skipped at root level only.
func MSIPrehashInput(f *File) []byte {
	var buf bytes.Buffer
	meta := func(e *DirEntry) {
		if e.Type != TypeRoot {
			n := int(e.NameLen) - 2
			if n < 0 {
				n = 0
			}
			if n > 64 {
				n = 64
			}
			buf.Write(e.RawName[:n])
		}
		if e.Type != TypeStream {
			buf.Write(e.CLSID[:])
		} else {
			var sz [4]byte
			binary.LittleEndian.PutUint32(sz[:], uint32(e.Size))
			buf.Write(sz[:])
		}
		var tmp [8]byte
		binary.LittleEndian.PutUint32(tmp[:4], e.StateBits)
		buf.Write(tmp[:4])
		if e.Type != TypeRoot {
			binary.LittleEndian.PutUint64(tmp[:], e.CTime)
			buf.Write(tmp[:])
			binary.LittleEndian.PutUint64(tmp[:], e.MTime)
			buf.Write(tmp[:])
		}
	}
	var rec func(n *Node, isRoot bool)
	rec = func(n *Node, isRoot bool) {
		meta(n.Entry)
		for _, c := range MSIHashOrder(n) {
			if isRoot && isSigStream(c) {
				continue
			}
			switch c.Entry.Type {
			case TypeStream:
				meta(c.Entry)
			case TypeStorage:
				rec(c, false)
			}
		}
	}
	if f.Root != nil {
		rec(f.Root, true)
	}
	return buf.Bytes()
}

// MSIDigestEx returns the extended digest and the prehash (the expected
// content of "\x05MsiDigitalSignatureEx"): prehash = H(MSIPrehashInput),
// digest = H(prehash || MSIDigestInput). Same confidence caveat as
// MSIPrehashInput; the "prehash is fed first into the same hash" part is
// HIGH confidence.
func MSIDigestEx(f *File, h crypto.Hash) (digest, prehash []byte) {
	p := h.New()
	p.Write(MSIPrehashInput(f))
	prehash = p.Sum(nil)
	d := h.New()
	d.Write(prehash)
	d.Write(MSIDigestInput(f))
	return d.Sum(nil), prehash
}
