package cfb

import (
	"bytes"
	"crypto"
	"encoding/binary"
	"os"
	"strings"
	"testing"

	"pgregory.net/rapid"
)

// tb is the subset of testing.TB that *rapid.T also implements.
type tb interface {
	Helper()
	Fatalf(format string, args ...any)
}

func mustBuild(t tb, s *Spec) []byte {
	t.Helper()
	data, err := Build(s)
	if err != nil {
		t.Fatalf("Build: %v", err)
	}
	return data
}

func mustParse(t tb, data []byte) *File {
	t.Helper()
	f, err := Parse(data)
	if err != nil {
		t.Fatalf("Parse: %v", err)
	}
	return f
}

func checkRoundTrip(t tb, s *Spec) *File {
	t.Helper()
	data := mustBuild(t, s)
	if len(data)%(1<<s.SectorShift) != 0 {
		t.Fatalf("file length %d not a sector multiple", len(data))
	}
	f := mustParse(t, data)
	if !f.Valid() {
		t.Fatalf("classes %v: built file has issues:\n%s", s.Classes(), strings.Join(f.Issues, "\n"))
	}
	if ok, why := ItemsEqual(s.Items(), f.Items()); !ok {
		t.Fatalf("classes %v: items differ: %s", s.Classes(), why)
	}
	return f
}

// (a) Parse(Build(Gen)) is issue-free and returns the specified content.
func TestRoundTripProperty(t *testing.T) {
	seen := map[string]int{}
	rapid.Check(t, func(rt *rapid.T) {
		s := Gen(rt)
		for _, c := range s.Classes() {
			seen[c]++
		}
		f := checkRoundTrip(rt, s)
		// determinism of the writer
		again, err := Build(s)
		if err != nil || !bytes.Equal(again, f.data) {
			rt.Fatalf("Build is not deterministic")
		}
		// the digest references must not panic and must ignore root signature streams
		d1 := MSIDigest(f, crypto.SHA256)
		stripped := *s
		root := *s.Root
		root.Children = nil
		for _, c := range s.Root.Children {
			if c.Name != SigStreamName && c.Name != SigExStreamName {
				root.Children = append(root.Children, c)
			}
		}
		stripped.Root = &root
		f2 := mustParse(rt, mustBuild(rt, &stripped))
		if d2 := MSIDigest(f2, crypto.SHA256); !bytes.Equal(d1, d2) {
			rt.Fatalf("MSI digest depends on root signature streams")
		}
		e1, p1 := MSIDigestEx(f, crypto.SHA256)
		e2, p2 := MSIDigestEx(f2, crypto.SHA256)
		if !bytes.Equal(e1, e2) || !bytes.Equal(p1, p2) {
			rt.Fatalf("MSI extended digest depends on root signature streams")
		}
	})
	t.Logf("classes seen: %v", seen)
}

func stream(name string, n int, seed uint64) *Entry {
	return &Entry{Name: name, Data: FillBytes(n, seed)}
}

func TestFixedShapes(t *testing.T) {
	clsid := [16]byte{1, 2, 3, 4, 5, 6, 7, 8, 9, 10, 11, 12, 13, 14, 15, 16}
	for _, shift := range []uint{9, 12} {
		// empty file
		checkRoundTrip(t, &Spec{SectorShift: shift, Root: &Entry{Name: "Root Entry"}})
		// directory exactly one sector, many sibling counts, both tree styles
		for n := 0; n <= 40; n++ {
			for style := 0; style <= 1; style++ {
				root := &Entry{Name: "Root Entry", CLSID: clsid}
				for i := 0; i < n; i++ {
					name := string(rune('a'+i%26)) + strings.Repeat("x", i/26)
					root.Children = append(root.Children, stream(name, i*37%200, uint64(i)))
				}
				checkRoundTrip(t, &Spec{SectorShift: shift, Root: root, TreeStyle: style, TreeSeed: uint64(n)})
			}
		}
		// everything at once
		sub := &Entry{Name: "Sub", IsStorage: true, CLSID: clsid, StateBits: 7, CTime: 11, MTime: 12, Children: []*Entry{
			stream("inner", 5000, 1), stream("tiny", 3, 2),
			{Name: "Deeper", IsStorage: true, Children: []*Entry{stream("x", 64, 3)}},
			{Name: "EmptyStorage", IsStorage: true},
		}}
		root := &Entry{Name: "Root Entry", CLSID: clsid, StateBits: 0x55, MTime: 99, Children: []*Entry{
			sub, stream("\x05SummaryInformation", 300, 4), stream("big", 40000, 5), stream("empty", 0, 6),
			stream("cut", 4096, 7), stream("cut-1", 4095, 8), stream(SigStreamName, 1500, 9),
		}}
		for _, frag := range []bool{false, true} {
			for _, seed := range []uint64{0, 42} {
				for place := 0; place <= 2; place++ {
					checkRoundTrip(t, &Spec{
						SectorShift: shift, Root: root, Fragment: frag, LayoutSeed: seed, FATPlacement: place,
						FreeSectors: []int{0, 3, 1000, 7}, TrailingFree: 2, FreeMiniSectors: []int{0, 5, 99},
						ExtraDirSectors: 1, UnusedDirEntriesInterleaved: true, DirOrderSeed: seed,
					})
				}
			}
		}
	}
}

func TestDIFAT(t *testing.T) {
	root := &Entry{Name: "Root Entry", Children: []*Entry{
		stream("a", 10000, 1), stream("b", 100, 2), stream("c", 20000, 3), stream("d", 4096, 4),
	}}
	for _, tc := range []struct {
		spec      Spec
		wantDIFAT int
	}{
		{Spec{SectorShift: 9, Root: root, ForceDIFAT: true, Fragment: true, LayoutSeed: 5}, 1},
		{Spec{SectorShift: 9, Root: root, MinFATSectors: 109 + 127 + 1, FATPlacement: FATSpread}, 2},
		{Spec{SectorShift: 9, Root: root, MinFATSectors: 109, FATPlacement: FATAtEnd}, 0},
	} {
		s := tc.spec
		f := checkRoundTrip(t, &s)
		if len(f.DIFATSectors) != tc.wantDIFAT {
			t.Fatalf("want %d DIFAT sectors, got %d (FAT sectors %d)", tc.wantDIFAT, len(f.DIFATSectors), len(f.FATSectors))
		}
		if tc.wantDIFAT == 0 {
			continue
		}
		// some stream data must live beyond the reach of the header DIFAT
		far := false
		for _, sec := range f.DirSectors {
			far = far || sec >= 109*128
		}
		f.Walk(func(n *Node) {
			if n.Entry.Type == TypeStream && n.Entry.Size >= 4096 && n.Entry.Start >= 109*128 {
				far = true
			}
		})
		if !far {
			t.Fatalf("no chain starts beyond sector %d", 109*128)
		}
		// corrupt: un-mark a DIFAT sector
		bad := append([]byte{}, f.data...)
		binary.LittleEndian.PutUint32(bad[f.FATEntryOffset(f.DIFATSectors[0]):], EndOfChain)
		g := mustParse(t, bad)
		if !g.HasIssue("difat") {
			t.Fatalf("expected difat issue, got %v", g.Issues)
		}
		// corrupt: wrong DIFAT count
		bad = append([]byte{}, f.data...)
		binary.LittleEndian.PutUint32(bad[72:], uint32(tc.wantDIFAT+1))
		g = mustParse(t, bad)
		if !g.HasIssue("header") {
			t.Fatalf("expected header issue, got %v", g.Issues)
		}
	}
	if _, err := Build(&Spec{SectorShift: 12, Root: root, ForceDIFAT: true}); err == nil {
		t.Fatal("ForceDIFAT with 4096-byte sectors should be refused")
	}
}

// (b) the repository fixture parses.
func TestDummyMSI(t *testing.T) {
	data, err := os.ReadFile("/repo/functest/packages/dummy.msi")
	if err != nil {
		t.Skipf("fixture not available: %v", err)
	}
	f, err := Parse(data)
	if err != nil {
		t.Fatalf("dummy.msi does not parse: %v", err)
	}
	t.Logf("dummy.msi: v%d sector %d, %d sectors, %d FAT / %d DIFAT / %d miniFAT / %d dir sectors, %d dir entries, mini stream %d bytes",
		f.Header.MajorVersion, f.SectorSize, f.NumSectors, len(f.FATSectors), len(f.DIFATSectors), len(f.MiniFATSectors), len(f.DirSectors), len(f.Entries), len(f.MiniStream))
	t.Logf("dummy.msi: %d issues", len(f.Issues))
	for _, s := range f.Issues {
		t.Logf("  issue: %s", s)
	}
	items := f.Items()
	nStreams := 0
	for _, it := range items {
		if !it.IsStorage {
			nStreams++
		}
	}
	t.Logf("dummy.msi: %d items (%d streams), root CLSID %x", len(items), nStreams, items[0].CLSID)
	if len(items) < 2 {
		t.Fatalf("dummy.msi: expected some streams")
	}
	t.Logf("dummy.msi: MSI digest sha256 %x", MSIDigest(f, crypto.SHA256))
	// Re-emit its logical content with our writer and make sure the content
	// and the digest survive.
	spec := &Spec{SectorShift: uint(f.Header.SectorShift), Root: specFromNode(f.Root)}
	g := checkRoundTrip(t, spec)
	if !bytes.Equal(MSIDigest(f, crypto.SHA256), MSIDigest(g, crypto.SHA256)) {
		t.Fatalf("digest changed after rewriting dummy.msi")
	}
}

func specFromNode(n *Node) *Entry {
	e := &Entry{Name: n.Entry.Name, IsStorage: n.Entry.Type != TypeStream, CLSID: n.Entry.CLSID,
		StateBits: n.Entry.StateBits, CTime: n.Entry.CTime, MTime: n.Entry.MTime, Data: n.Data}
	for _, c := range n.Children {
		e.Children = append(e.Children, specFromNode(c))
	}
	return e
}

func TestMSIDigestInput(t *testing.T) {
	x := [16]byte{0xAA, 1}
	y := [16]byte{0xBB, 2}
	d := func(s string) []byte { return []byte(s) }
	root := &Entry{Name: "Root Entry", CLSID: x, StateBits: 0x01020304, Children: []*Entry{
		{Name: "a", Data: d("<a>")},
		{Name: "B", Data: d("<B>")},
		{Name: "ab", Data: d("<ab>")},
		{Name: "Ā", Data: d("<U+0100>")}, // bytes 00 01: sorts before "B" (42 00) in the hash order
		{Name: "S", IsStorage: true, CLSID: y, StateBits: 5, CTime: 6, MTime: 7, Children: []*Entry{
			{Name: "x", Data: d("<x>")},
			{Name: SigStreamName, Data: d("<nested-sig>")},
		}},
		{Name: SigStreamName, Data: d("<sig>")},
		{Name: SigExStreamName, Data: d("<sigex>")},
	}}
	f := checkRoundTrip(t, &Spec{SectorShift: 9, Root: root})
	var want bytes.Buffer
	want.WriteString("<U+0100>")
	want.WriteString("<B>")
	// storage S: "\x05DigitalSignature" (05 00 ...) before "x"
	want.WriteString("<nested-sig><x>")
	want.Write(y[:])
	want.WriteString("<a>")
	want.WriteString("<ab>")
	want.Write(x[:])
	if got := MSIDigestInput(f); !bytes.Equal(got, want.Bytes()) {
		t.Fatalf("digest input:\n got %q\nwant %q", got, want.Bytes())
	}
	h := crypto.SHA1.New()
	h.Write(want.Bytes())
	if !bytes.Equal(MSIDigest(f, crypto.SHA1), h.Sum(nil)) {
		t.Fatal("MSIDigest != H(MSIDigestInput)")
	}

	u16 := func(s string) []byte {
		var out []byte
		for _, u := range encodeName(s) {
			out = append(out, byte(u), byte(u>>8))
		}
		return out
	}
	var pre bytes.Buffer
	meta := func(name string, clsid *[16]byte, size int, state uint32, ct, mt uint64, isRoot bool) {
		if !isRoot {
			pre.Write(u16(name))
		}
		if clsid != nil {
			pre.Write(clsid[:])
		} else {
			binary.Write(&pre, binary.LittleEndian, uint32(size))
		}
		binary.Write(&pre, binary.LittleEndian, state)
		if !isRoot {
			binary.Write(&pre, binary.LittleEndian, ct)
			binary.Write(&pre, binary.LittleEndian, mt)
		}
	}
	meta("", &x, 0, 0x01020304, 0, 0, true)
	meta("Ā", nil, 8, 0, 0, 0, false)
	meta("B", nil, 3, 0, 0, 0, false)
	meta("S", &y, 0, 5, 6, 7, false)
	meta(SigStreamName, nil, 12, 0, 0, 0, false)
	meta("x", nil, 3, 0, 0, 0, false)
	meta("a", nil, 3, 0, 0, 0, false)
	meta("ab", nil, 4, 0, 0, 0, false)
	if got := MSIPrehashInput(f); !bytes.Equal(got, pre.Bytes()) {
		t.Fatalf("prehash input:\n got %q\nwant %q", got, pre.Bytes())
	}
	dig, prehash := MSIDigestEx(f, crypto.SHA256)
	p := crypto.SHA256.New()
	p.Write(pre.Bytes())
	h2 := crypto.SHA256.New()
	h2.Write(p.Sum(nil))
	h2.Write(want.Bytes())
	if !bytes.Equal(prehash, p.Sum(nil)) || !bytes.Equal(dig, h2.Sum(nil)) {
		t.Fatal("MSIDigestEx mismatch")
	}
}

func TestCompareNames(t *testing.T) {
	u := encodeName
	cases := []struct {
		a, b string
		want int
	}{
		{"a", "B", -1},  // case-insensitive: A < B (case-sensitive would say B < a)
		{"Z", "aa", -1}, // shorter first
		{"a", "A", 0},
		{"_", "a", 1},                // '_' (5F) > 'A' (41) although '_' < 'a' (61)
		{"\uFFEE", "\U0001F600", -1}, // 1 code unit vs 2 code units: shorter first
		{"\uFFEEx", "\U0001F600", 1}, // same length: FFEE > D83D as code units (code-point order says otherwise)
		{"é", "É", 0},
		{"abc", "ABD", -1},
	}
	for _, c := range cases {
		if got := CompareNames(u(c.a), u(c.b)); got != c.want {
			t.Errorf("CompareNames(%q,%q) = %d, want %d", c.a, c.b, got, c.want)
		}
		if got := CompareNames(u(c.b), u(c.a)); got != -c.want {
			t.Errorf("CompareNames(%q,%q) = %d, want %d", c.b, c.a, got, -c.want)
		}
	}
}

// ---- (c) negative tests ----

func put32(data []byte, off int64, v uint32) {
	if off < 0 {
		panic("bad offset")
	}
	binary.LittleEndian.PutUint32(data[off:], v)
}

func findEntry(f *File, path string) *DirEntry {
	var out *DirEntry
	f.Walk(func(n *Node) {
		if n.Path == path {
			out = n.Entry
		}
	})
	return out
}

func fatChain(f *File, start uint32) []uint32 {
	var out []uint32
	for s := start; s <= MaxRegSect && len(out) < 10000; s = f.FAT[s] {
		out = append(out, s)
	}
	return out
}

func negBase(t *testing.T, shift uint) (*File, []byte) {
	root := &Entry{Name: "Root Entry", Children: []*Entry{
		stream("A", 3*(1<<shift)+4096, 1), stream("Bb", 2*(1<<shift)+4096, 2),
		stream("m1", 200, 3), stream("m2", 300, 4),
	}}
	data := mustBuild(t, &Spec{SectorShift: shift, Root: root, FreeSectors: []int{3}})
	f := mustParse(t, data)
	if !f.Valid() {
		t.Fatalf("base file invalid: %v", f.Issues)
	}
	return f, data
}

func expectIssue(t *testing.T, data []byte, cat, substr string) *File {
	t.Helper()
	f, err := Parse(data)
	if err != nil {
		t.Fatalf("Parse: %v", err)
	}
	for _, s := range f.Issues {
		if strings.HasPrefix(s, cat+":") && strings.Contains(s, substr) {
			return f
		}
	}
	t.Fatalf("expected a %q issue containing %q, got:\n%s", cat, substr, strings.Join(f.Issues, "\n"))
	return nil
}

func TestNegativeChains(t *testing.T) {
	for _, shift := range []uint{9, 12} {
		f, data := negBase(t, shift)
		a := fatChain(f, findEntry(f, "A").Start)
		b := fatChain(f, findEntry(f, "Bb").Start)

		// cycle: last sector of A points back to its first
		bad := append([]byte{}, data...)
		put32(bad, f.FATEntryOffset(a[len(a)-1]), a[0])
		expectIssue(t, bad, "chain", "cycle")

		// self-loop in the directory chain
		bad = append([]byte{}, data...)
		put32(bad, f.FATEntryOffset(f.DirSectors[len(f.DirSectors)-1]), f.DirSectors[len(f.DirSectors)-1])
		expectIssue(t, bad, "chain", "cycle")

		// cross-link: A's second sector continues into B
		bad = append([]byte{}, data...)
		put32(bad, f.FATEntryOffset(a[1]), b[1])
		g := expectIssue(t, bad, "chain", "cross-linked")
		if !g.HasIssue("size") || !g.HasIssue("leak") {
			t.Fatalf("cross-link should also give size and leak issues: %v", g.Issues)
		}

		// chain runs into a free sector
		bad = append([]byte{}, data...)
		put32(bad, f.FATEntryOffset(a[1]), FreeSect)
		expectIssue(t, bad, "chain", "FREESECT")

		// chain runs into a FAT sector
		bad = append([]byte{}, data...)
		put32(bad, f.FATEntryOffset(a[0]), f.FATSectors[0])
		expectIssue(t, bad, "chain", "cross-linked with FAT")

		// out of bounds
		bad = append([]byte{}, data...)
		put32(bad, f.FATEntryOffset(b[0]), uint32(f.NumSectors+5))
		expectIssue(t, bad, "chain", "beyond end of file")

		// chain too short / too long for the size
		bad = append([]byte{}, data...)
		put32(bad, f.FATEntryOffset(b[0]), EndOfChain)
		expectIssue(t, bad, "size", "Bb")
		bad = append([]byte{}, data...)
		binary.LittleEndian.PutUint64(bad[f.DirEntryOffset(findEntry(f, "Bb").ID)+120:], 4096)
		expectIssue(t, bad, "size", "Bb")

		// leak: a free sector marked as end of chain
		free := uint32(0)
		for i, v := range f.FAT[:f.NumSectors] {
			if v == FreeSect {
				free = uint32(i)
			}
		}
		bad = append([]byte{}, data...)
		put32(bad, f.FATEntryOffset(free), EndOfChain)
		g = expectIssue(t, bad, "leak", "not referenced")
		if len(g.IssuesExcept("leak")) != 0 {
			t.Fatalf("only leak issues expected: %v", g.Issues)
		}

		// mini chain cycle and cross-link
		m1 := findEntry(f, "m1")
		m2 := findEntry(f, "m2")
		bad = append([]byte{}, data...)
		put32(bad, f.MiniFATEntryOffset(m1.Start), m1.Start)
		expectIssue(t, bad, "chain", "mini chain cycle")
		bad = append([]byte{}, data...)
		put32(bad, f.MiniFATEntryOffset(m1.Start), m2.Start+1)
		expectIssue(t, bad, "chain", "cross-linked")
		// mini chain beyond the mini stream
		bad = append([]byte{}, data...)
		put32(bad, f.MiniFATEntryOffset(m2.Start), uint32(len(f.MiniStream)/64))
		expectIssue(t, bad, "chain", "beyond the mini stream")
	}
}

func TestNegativeHeader(t *testing.T) {
	for _, shift := range []uint{9, 12} {
		f, data := negBase(t, shift)
		bad := append([]byte{}, data...)
		put32(bad, 44, f.Header.NumFATSectors+1)
		expectIssue(t, bad, "header", "FAT sector count")

		bad = append([]byte{}, data...)
		put32(bad, 64, f.Header.NumMiniFATSectors+1)
		expectIssue(t, bad, "header", "miniFAT sector count")

		bad = append([]byte{}, data...)
		put32(bad, 40, 7)
		expectIssue(t, bad, "header", "directory sector count")

		expectIssue(t, data[:len(data)-1], "header", "whole number")
		expectIssue(t, append(append([]byte{}, data...), 0), "header", "whole number")

		// an extra sector at the end of the file that the FAT maps as FREESECT is fine
		if g := mustParse(t, append(append([]byte{}, data...), make([]byte, 1<<shift)...)); !g.Valid() {
			t.Fatalf("trailing free sector should be valid: %v", g.Issues)
		}

		// FAT sector not marked FATSECT
		bad = append([]byte{}, data...)
		put32(bad, f.FATEntryOffset(f.FATSectors[0]), EndOfChain)
		expectIssue(t, bad, "fat", "instead of FATSECT")

		// stray FATSECT
		free := uint32(0)
		for i, v := range f.FAT[:f.NumSectors] {
			if v == FreeSect {
				free = uint32(i)
			}
		}
		bad = append([]byte{}, data...)
		put32(bad, f.FATEntryOffset(free), FatSect)
		expectIssue(t, bad, "fat", "not listed in the DIFAT")

		// FAT entry beyond the end of the file
		bad = append([]byte{}, data...)
		put32(bad, f.FATEntryOffset(uint32(f.NumSectors)), EndOfChain)
		expectIssue(t, bad, "fat", "has only")

		if _, err := Parse(data[:100]); err == nil {
			t.Fatal("short file should fail")
		}
		bad = append([]byte{}, data...)
		bad[0] = 0
		if _, err := Parse(bad); err == nil {
			t.Fatal("bad signature should fail")
		}
	}
}

func siblingSpec(shift uint, n int) *Spec {
	root := &Entry{Name: "Root Entry"}
	for i := 0; i < n; i++ {
		root.Children = append(root.Children, stream(string(rune('a'+i)), 10+i, uint64(i)))
	}
	return &Spec{SectorShift: shift, Root: root}
}

func TestNegativeTree(t *testing.T) {
	for _, shift := range []uint{9, 12} {
		// 3 siblings: b is the tree root with a and c as children.
		data := mustBuild(t, siblingSpec(shift, 3))
		f := mustParse(t, data)
		top := &f.Entries[f.Entries[0].Child]
		if top.Name != "b" || top.Left == NoStream || top.Right == NoStream {
			t.Fatalf("unexpected tree shape: top %q", top.Name)
		}
		// an all-black perfectly balanced tree is valid
		for i := range f.Entries {
			if f.Entries[i].Type != TypeUnallocated && f.Entries[i].Color != ColorBlack {
				t.Fatalf("3-sibling balanced tree should be all black")
			}
		}
		// swap the order of two siblings
		bad := append([]byte{}, data...)
		off := f.DirEntryOffset(top.ID)
		put32(bad, off+68, top.Right)
		put32(bad, off+72, top.Left)
		g := expectIssue(t, bad, "tree-order", "is greater")
		if len(g.IssuesExcept("tree-order")) != 0 {
			t.Fatalf("only tree-order issues expected: %v", g.Issues)
		}
		// the content is still fully readable
		if ok, why := ItemsEqual(f.Items(), g.Items()); !ok {
			t.Fatalf("items after sibling swap: %s", why)
		}
		// rename a sibling so that two names collide case-insensitively
		bad = append([]byte{}, data...)
		bad[f.DirEntryOffset(f.Entries[top.Left].ID)] = 'B'
		expectIssue(t, bad, "tree-order", "equal names")
		// red root of the sibling tree
		bad = append([]byte{}, data...)
		bad[off+67] = ColorRed
		expectIssue(t, bad, "tree-rb", "is red")
		// red-red
		bad[f.DirEntryOffset(top.Left)+67] = ColorRed
		expectIssue(t, bad, "tree-rb", "red parent")

		// 4 siblings: the balanced tree needs one red node; all black breaks the black height
		data = mustBuild(t, siblingSpec(shift, 4))
		f = mustParse(t, data)
		reds := 0
		bad = append([]byte{}, data...)
		for i := range f.Entries {
			if f.Entries[i].Type == TypeStream && f.Entries[i].Color == ColorRed {
				reds++
				bad[f.DirEntryOffset(uint32(i))+67] = ColorBlack
			}
		}
		if reds != 1 {
			t.Fatalf("expected exactly one red node, got %d", reds)
		}
		g = expectIssue(t, bad, "tree-rb", "black height")
		if len(g.IssuesExcept("tree-rb")) != 0 {
			t.Fatalf("only tree-rb issues expected: %v", g.Issues)
		}

		// 2 siblings, all black: unequal black height as well
		data = mustBuild(t, siblingSpec(shift, 2))
		f = mustParse(t, data)
		bad = append([]byte{}, data...)
		for i := range f.Entries {
			if f.Entries[i].Type == TypeStream {
				bad[f.DirEntryOffset(uint32(i))+67] = ColorBlack
			}
		}
		expectIssue(t, bad, "tree-rb", "black height")
	}
}

func TestNegativeDirectory(t *testing.T) {
	for _, shift := range []uint{9, 12} {
		data := mustBuild(t, siblingSpec(shift, 3))
		f := mustParse(t, data)
		top := &f.Entries[f.Entries[0].Child]
		off := f.DirEntryOffset(top.ID)

		// orphan: cut off the left child -> unreachable allocated entry
		bad := append([]byte{}, data...)
		put32(bad, off+68, NoStream)
		g := expectIssue(t, bad, "dir", "not reachable")
		if !g.HasIssue("leak") && !g.HasIssue("tree-rb") {
			t.Fatalf("expected follow-up issues: %v", g.Issues)
		}

		// entry reached twice
		bad = append([]byte{}, data...)
		put32(bad, off+68, top.Right)
		expectIssue(t, bad, "dir", "more than once")

		// link beyond the directory
		bad = append([]byte{}, data...)
		put32(bad, off+72, 9999)
		expectIssue(t, bad, "dir", "beyond the directory")

		// name length inconsistent with the terminator
		bad = append([]byte{}, data...)
		binary.LittleEndian.PutUint16(bad[off+64:], 6)
		expectIssue(t, bad, "dir", "name length")

		// link to an unallocated entry (512: entry 4.. do not exist; use ExtraDirSectors)
		s := siblingSpec(shift, 3)
		s.ExtraDirSectors = 1
		data2 := mustBuild(t, s)
		f2 := mustParse(t, data2)
		last := uint32(len(f2.Entries) - 1)
		bad = append([]byte{}, data2...)
		leaf := f2.Entries[f2.Entries[0].Child].Right
		put32(bad, f2.DirEntryOffset(leaf)+72, last)
		expectIssue(t, bad, "dir", "object type 0")

		// root not first
		bad = append([]byte{}, data...)
		bad[f.DirEntryOffset(0)+66] = TypeStorage
		if _, err := Parse(bad); err == nil {
			t.Fatal("file without root entry should fail")
		}

		// storage with a size
		s = &Spec{SectorShift: shift, Root: &Entry{Name: "Root Entry", Children: []*Entry{{Name: "S", IsStorage: true}}}}
		data3 := mustBuild(t, s)
		f3 := mustParse(t, data3)
		bad = append([]byte{}, data3...)
		binary.LittleEndian.PutUint64(bad[f3.DirEntryOffset(1)+120:], 5)
		expectIssue(t, bad, "dir", "has size")
	}
}

func TestBuildRejects(t *testing.T) {
	bad := []*Spec{
		nil,
		{SectorShift: 10, Root: &Entry{}},
		{SectorShift: 9, Root: &Entry{Children: []*Entry{{Name: "a"}, {Name: "A"}}}},
		{SectorShift: 9, Root: &Entry{Children: []*Entry{{Name: ""}}}},
		{SectorShift: 9, Root: &Entry{Children: []*Entry{{Name: strings.Repeat("x", 32)}}}},
		{SectorShift: 9, Root: &Entry{Children: []*Entry{{Name: "a/b"}}}},
	}
	for i, s := range bad {
		if _, err := Build(s); err == nil {
			t.Errorf("spec %d should be rejected", i)
		}
	}
}
