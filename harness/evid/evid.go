// Package evid records what a property run actually covered and writes it as a
// partial evidence file that the ./check driver merges into evidence/<id>.json.
package evid

import (
	"bufio"
	"encoding/json"
	"fmt"
	"hash/fnv"
	"os"
	"sort"
	"strconv"
	"strings"
	"sync"
	"syscall"
	"testing"
	"time"
)

const maxSamples = 8

type Rec struct {
	mu          sync.Mutex
	Property    string
	evaluations int64
	nontrivial  map[uint64]struct{}
	classes     map[string]int64
	excluded    map[string]int64
	samples     []any
	sampleSeen  map[string]bool
	extra       map[string]any
	assumptions []string
	known       []string
	exhaustive  *bool
	rule        string
}

func New(property string) *Rec {
	return &Rec{
		Property:   property,
		nontrivial: map[uint64]struct{}{},
		classes:    map[string]int64{},
		excluded:   map[string]int64{},
		sampleSeen: map[string]bool{},
		extra:      map[string]any{},
	}
}

func hash64(s string) uint64 {
	h := fnv.New64a()
	h.Write([]byte(s))
	return h.Sum64()
}

// Case records one executed case. key identifies the case (distinctness is
// measured on it), class names its shape class for the histogram, nontrivial
// says whether it satisfies the property's non-triviality rule.
func (r *Rec) Case(key, class string, nontrivial bool) {
	r.mu.Lock()
	defer r.mu.Unlock()
	r.evaluations++
	r.classes[class]++
	if nontrivial {
		r.nontrivial[hash64(key)] = struct{}{}
	}
}

// Sample keeps up to maxSamples concrete cases, at most one per class label.
func (r *Rec) Sample(class string, v any) {
	r.mu.Lock()
	defer r.mu.Unlock()
	if len(r.samples) >= maxSamples || r.sampleSeen[class] {
		return
	}
	r.sampleSeen[class] = true
	r.samples = append(r.samples, v)
}

func (r *Rec) Excluded(key string) {
	r.mu.Lock()
	defer r.mu.Unlock()
	r.excluded[key]++
}

func (r *Rec) Set(key string, v any) {
	r.mu.Lock()
	defer r.mu.Unlock()
	r.extra[key] = v
}

func (r *Rec) Add(key string, n int64) {
	r.mu.Lock()
	defer r.mu.Unlock()
	cur, _ := r.extra[key].(int64)
	r.extra[key] = cur + n
}

func (r *Rec) Rule(s string) {
	r.mu.Lock()
	defer r.mu.Unlock()
	if r.rule == "" {
		r.rule = s
	} else if !strings.Contains(r.rule, s) {
		r.rule += " || " + s
	}
}

func (r *Rec) Assume(s string) {
	r.mu.Lock()
	defer r.mu.Unlock()
	for _, a := range r.assumptions {
		if a == s {
			return
		}
	}
	r.assumptions = append(r.assumptions, s)
}

func (r *Rec) Exhaustive(v bool) {
	r.mu.Lock()
	defer r.mu.Unlock()
	if r.exhaustive == nil || !v {
		r.exhaustive = &v
	}
}

// KnownFinding prints the interface line for a listed finding that still
// reproduces and remembers it for the evidence file.
func (r *Rec) KnownFinding(key, what string) {
	r.mu.Lock()
	defer r.mu.Unlock()
	for _, k := range r.known {
		if k == key {
			return
		}
	}
	r.known = append(r.known, key)
	fmt.Printf("KNOWN-FINDING: property=%s %s: %s\n", r.Property, key, what)
}

type part struct {
	Property    string           `json:"property_id"`
	Evaluations int64            `json:"evaluations"`
	Nontrivial  []string         `json:"nontrivial_hashes"`
	Classes     map[string]int64 `json:"classes"`
	Excluded    map[string]int64 `json:"excluded_known"`
	Samples     []any            `json:"samples"`
	Extra       map[string]any   `json:"extra"`
	Assumptions []string         `json:"assumptions"`
	Known       []string         `json:"known_findings_reproduced"`
	Exhaustive  *bool            `json:"exhaustive,omitempty"`
	Rule        string           `json:"rule"`
}

// Flush writes the partial evidence to $VERIF_EVIDENCE_PART (no-op if unset).
func (r *Rec) Flush() {
	path := os.Getenv("VERIF_EVIDENCE_PART")
	if path == "" {
		return
	}
	r.mu.Lock()
	defer r.mu.Unlock()
	p := part{Property: r.Property, Evaluations: r.evaluations, Classes: r.classes,
		Excluded: r.excluded, Samples: r.samples, Extra: r.extra, Assumptions: r.assumptions,
		Known: r.known, Exhaustive: r.exhaustive, Rule: r.rule}
	for h := range r.nontrivial {
		p.Nontrivial = append(p.Nontrivial, strconv.FormatUint(h, 36))
	}
	sort.Strings(p.Nontrivial)
	f, err := os.Create(path)
	if err != nil {
		fmt.Fprintln(os.Stderr, "evid: ", err)
		return
	}
	w := bufio.NewWriter(f)
	enc := json.NewEncoder(w)
	if err := enc.Encode(p); err != nil {
		fmt.Fprintln(os.Stderr, "evid: ", err)
	}
	w.Flush()
	f.Close()
}

// Main is the TestMain body shared by all property packages.
func Main(m *testing.M, r *Rec) {
	code := m.Run()
	r.Flush()
	os.Exit(code)
}

// EnvInt reads an integer tuning knob set by the driver.
func EnvInt(name string, def int) int {
	if v := os.Getenv(name); v != "" {
		if n, err := strconv.Atoi(v); err == nil {
			return n
		}
	}
	return def
}

// Thorough reports whether the thorough tier was requested.
func Thorough() bool { return os.Getenv("VERIF_TIER") == "thorough" }

// SaveCase writes a self-contained description of a failing case next to the
// rapid fail file; the last write (the shrunk case) wins.
func SaveCase(name string, v any) {
	dir := os.Getenv("VERIF_REPLAY_OUT")
	if dir == "" {
		return
	}
	_ = os.MkdirAll(dir, 0o755)
	blob, err := json.MarshalIndent(v, "", " ")
	if err != nil {
		blob = []byte(fmt.Sprintf("%#v", v))
	}
	_ = os.WriteFile(dir+"/"+name+".case.json", blob, 0o644)
}

// WaitOrBlocked waits for done. It returns true if instead the whole process consumed
// (almost) no CPU time over the given window (less than 2 ms per second): it is blocked,
// not slow. A busy or merely starved process keeps accumulating CPU time, so wall-clock
// time alone never makes this return true.
func WaitOrBlocked(done <-chan struct{}, window time.Duration) bool {
	cpu := func() time.Duration {
		var ru syscall.Rusage
		syscall.Getrusage(syscall.RUSAGE_SELF, &ru)
		return time.Duration(ru.Utime.Nano() + ru.Stime.Nano())
	}
	budget := time.Duration(window.Seconds()*2) * time.Millisecond
	tick := time.NewTicker(time.Second)
	defer tick.Stop()
	start, startCPU := time.Now(), cpu()
	for {
		select {
		case <-done:
			return false
		case <-tick.C:
			now := cpu()
			if os.Getenv("VERIF_WATCH_DEBUG") != "" {
				fmt.Fprintf(os.Stderr, "watch: cpu+%v over %v\n", now-startCPU, time.Since(start).Round(time.Second))
			}
			if now-startCPU > budget {
				start, startCPU = time.Now(), now
				continue
			}
			if time.Since(start) >= window {
				return true
			}
		}
	}
}
