// patchdriver applies a binary patch set through relic's binpatch package the way the
// command line does (serialise, parse, Apply), so that C13 can kill it at any system call.
//
//	patchdriver <file> <output path> <offset:oldsize:hexbytes>...
package main

import (
	"encoding/hex"
	"fmt"
	"os"
	"strconv"
	"strings"

	"github.com/sassoftware/relic/v8/lib/binpatch"
)

func main() {
	if len(os.Args) < 4 {
		fmt.Fprintln(os.Stderr, "usage: patchdriver <file> <out> <offset:oldsize:hex>...")
		os.Exit(2)
	}
	in, out := os.Args[1], os.Args[2]
	p := binpatch.New()
	for _, spec := range os.Args[3:] {
		f := strings.SplitN(spec, ":", 3)
		if len(f) != 3 {
			fmt.Fprintln(os.Stderr, "bad patch", spec)
			os.Exit(2)
		}
		off, _ := strconv.ParseInt(f[0], 10, 64)
		old, _ := strconv.ParseInt(f[1], 10, 64)
		blob, err := hex.DecodeString(f[2])
		if err != nil {
			fmt.Fprintln(os.Stderr, "bad patch", spec)
			os.Exit(2)
		}
		p.Add(off, old, blob)
	}
	loaded, err := binpatch.Load(p.Dump())
	if err != nil {
		fmt.Fprintln(os.Stderr, "load:", err)
		os.Exit(70)
	}
	flag := os.O_RDONLY
	if in == out {
		flag = os.O_RDWR
	}
	f, err := os.OpenFile(in, flag, 0)
	if err != nil {
		fmt.Fprintln(os.Stderr, err)
		os.Exit(70)
	}
	defer f.Close()
	if err := loaded.Apply(f, out); err != nil {
		fmt.Fprintln(os.Stderr, "apply:", err)
		os.Exit(70)
	}
}
