# Per-property run configuration for ./check (tier knobs only; the oracles live in the Go tests)
# plus the MANIFEST text for each claimed check (tools/mkmanifest.py writes MANIFEST.json from this).

HOOK_COMMITS = ["a672138"]

_PENDING = "check not built yet in this round (see DESIGN.md build order); not claimed until it runs green on the unchanged tree"

NOT_APPLICABLE = {pid: _PENDING for pid in
                  ["C01", "C02", "C03", "C04", "C05", "C06", "C07", "C08", "C09", "C10",
                   "C11", "C13", "C14", "C15", "C16", "C17", "C18", "C19", "C20"]}

CHECKS = {
    "C12": {
        "pkg": "./props/c12",
        "level": "exploration",
        "technique": "property-based testing: exhaustive small-scope enumeration + rapid random generation against a reference splice model",
        "level_text": "Every file of length <= L (quick 5, thorough 6) x every list of <= 3 disjoint ranges x blob length <= 2 x every Add call order x {Dump/Load via signers.ApplyBinPatch, direct Apply} x 5 path modes is enumerated completely and compared with a harness-owned reference splice; rapid adds random larger files (<= 9000 bytes, <= 12 patches), sparse files with > 4 GiB removed ranges, an independent decode of the Dump wire format, and truncated/corrupt patch blobs that must be refused with target and destination untouched and no temp files left.",
        "level_note": "Trusts the harness reference splice (15 lines) and the OS file system (tmpfs when /dev/shm exists). Same-offset patches that are not consecutive Add calls are excluded (unspecified order). Not a proof beyond the enumerated bounds.",
        "quick": {"checks": 3000, "timeout": 600, "env": {"VERIF_C12_MAXLEN": 5, "VERIF_C12_SPARSE": 6}},
        "thorough": {"checks": 60000, "timeout": 3000, "env": {"VERIF_C12_MAXLEN": 6, "VERIF_C12_SPARSE": 60}},
    },
}
CHECKS["C20"] = {
    "module": "harness26", "go": "go1.26.8", "pkg": "./props/c20", "engine": "rapid+synctest",
    "level": "exploration",
    "technique": "model-based property testing (rapid) of the real health loop on a synctest fake clock against a reference model of the statement",
    "level_text": "Generated histories (0-3 scripted tokens, threshold N 1-5, interval, ping timeout, disabled flag, per-check outcomes ok/error/hang/slow, observation instants, close at any step) are executed on the real server.New health loop inside a testing/synctest bubble; after every observation GET /health is compared with a model written from the statement (disabled, or no completed check for 3 intervals, or last N checks all failed; one success restores). Close is checked separately on the real clock (goroutine must be gone) and inside the bubble (no goroutine, no further token checks).",
    "level_note": "Trusts go1.26.8 testing/synctest as the clock and scripted fake tokens registered through token.Openers; same-instant races (slow == timeout) are excluded; PKCS#11 worker tokens not exercised.",
    "quick": {"checks": 10000, "timeout": 600, "vmem_kb": 0},
    "thorough": {"checks": 60000, "timeout": 3000, "vmem_kb": 0, "shards": 8},
}
CHECKS["C04"] = {
    "pkg": "./props/c04",
    "level": "exploration",
    "technique": "property-based testing (rapid): generated configurations x requests against a reference authorisation model, a call-recording token and a metamorphic header relation",
    "level_text": "Generated relic configurations (clients by SPKI fingerprint or issuing CA incl. chains, wrong EKU, expired; role sets; keys incl. aliases that dangle / chain / self-reference, hidden, tokenless, undefined-token; trusted-proxy lists v4/v6/CIDR) are loaded through config.ReadFile and served by the real server.New(cfg).Handler(). For each generated request (endpoint, key, peer, TLS chain, X-Forwarded-For / Ssl-Client-Cert, TLS or plaintext listener, or bearer token with a scripted policy endpoint incl. denial without an error list) a reference model of the statement predicts 401/403/400/allowed; a recording token registered via token.Openers proves no GetKey/Sign on refused requests; the access log's stack field exposes recovered panics; listings are checked in both directions; headers from untrusted peers must leave status, body, logged address/user and audit identity unchanged; audit records must name the resolved key, the model's client and address.",
    "level_note": "TLS chains are injected as tls.ConnectionState (no handshake). For a trusted peer that sends no X-Forwarded-For either identity source is accepted. Entitled callers of role-less keys (reachable only through policy allowed_keys) may get an error: relic opens no token for them and C04 does not demand success.",
    "quick": {"checks": 6000, "timeout": 600},
    "thorough": {"checks": 40000, "timeout": 3000, "shards": 8},
}
CHECKS["C17"] = {
    "pkg": "./props/c17",
    "level": "exploration",
    "technique": "differential property-based testing (rapid): generated ZIP archives read by zipslicer vs generator layout, Go archive/zip and Python zipfile; rewrite/read-back round trips",
    "level_text": "A byte-exact ZIP generator with a layout model (descriptor kinds, forced ZIP64 records, extras, comments, prefix, gaps, permuted directory, 0..64 KiB members) produces archives that Go archive/zip and Python zipfile must first accept; zipslicer's random-access and tar-streaming readers must then report the same member list, offsets, sizes, CRCs and contents. The untouched directory must re-serialise to the original entry bytes (end records equal in meaning, byte-identical when no ZIP64 end record is involved; GetOriginalDirectory byte-identical always). Mangle/NewFile/MakePatch rewrites (delete subsets, add files, force ZIP64) for 1-3 rounds must be read back identically by Go, Python and relic (both modes). Archives beyond 4 GiB are generated as sparse byte strings (2-5 members, one or more of them 4 GiB + {0,1,16,4096} zero bytes, stored or deflated, small members in between and above; ZIP64 extras in the 24-byte and in the only-saturated-values style): read by relic and archive/zip, rewritten (a member with others behind it deleted, a file added) and read back by archive/zip and relic; a sample of cases (1 in 200 quick, 1 in 10 thorough) goes through the tar-streaming reader with every member consumed, and through Python zipfile on a sparse file.",
    "level_note": "Beyond 4 GiB the member content is all zero bytes and the references list the big members without reading them (Python refuses members > 1 GiB; archive/zip content is read for the small members only). Listed findings (archive comment, signature-less descriptor, permuted directory in streaming mode, 24-byte descriptor on empty member) are probed each run and excluded by construction from the main search.",
    "quick": {"checks": 2500, "timeout": 900},
    "thorough": {"checks": 12000, "timeout": 3400, "shards": 8},
}
CHECKS["C01"] = {
    "pkg": "./props/c01",
    "level": "exploration",
    "technique": "property-based testing (rapid): generated artefacts x key x digest x flags x pipeline, oracle = support table + relic verifier + identity/digest of the accepted signature",
    "level_text": "For each of 17 package types an input is drawn (by-construction generators for PE, MSI/CFB, JAR/ZIP/APK, PowerShell family, PGP payloads, cabinets with reserved header space, APPX packages with an asset around the 64 KiB block size and small Mach-O images; repository fixtures for the rest), then key (RSA-2048/3072, P-256/384/521), digest (SHA-1..SHA-512), signer flags, pipeline (library call sequence of the sign command; real daemon over TLS + remote client; the relic binary), output path mode, optional pre-signing (for Debian packages in a drawn role slot) and, for X.509 types, key entries that share a key file with another entry but carry their own certificate. Supported combinations must sign and verify under relic's verifier with digests and chain checking on, naming the configured leaf (or PGP key) and the requested digest; unsupported ones must fail with an explicit error, leave the input byte-identical and leave no output or temporary file.",
    "level_note": "Support table written from README/doc (three-valued); file token only. Inputs for cab/cat/xap/vsix/appx/apk/dmg/pkg/mach-o/rpm/deb/appmanifest are the repository fixtures (no generator), so the input quantifier is only sampled there.",
    "quick": {"checks": 300, "timeout": 1200},
    "thorough": {"checks": 1500, "timeout": 3400, "shards": 8},
}
CHECKS["C03"] = {
    "pkg": "./props/c03",
    "level": "exploration",
    "technique": "property-based testing (rapid): sign generated artefacts, compare payload items before/after with independent readers",
    "level_text": "For PE, MSI/CFB, JAR (plain and hostile layouts: prefix bytes, gaps, zero-length members, long names), PowerShell scripts, XAP, VSIX, APPX (generated assets around the block size), APK, Mach-O (generated images with 0-1024 bytes of header padding; refusal accepted below 16), DEB, cabinets (generated header reserves), application manifests and RPM an input is generated (or a fixture drawn), in one case of three pre-signed by relic, signed through the library pipeline to the same or a new path, and the outcome must be either (error, input byte-identical, nothing left behind) or (success; output accepted by an independent reader - Go archive/zip, debug/macho, a strict ar walker plus ar(1), harness PE parser, harness CFB validator, harness cabinet reader that follows every offset and checksum, encoding/xml token comparison, RPM lead/header framing; every payload item that is not signature metadata identical in bytes, metadata and order; relic's verifier accepts it). PGP clear-signed and inline messages over generated text and binary documents (lines of 4094-19000 bytes and around 64 KiB) are read back by an independent OpenPGP reader: the recovered document equals the input (clear-signed: up to line-ending style and trailing blanks), the signature is good over it, a line beyond 64 KiB may be refused cleanly, and the signer comes back (blocked-process watchdog).",
    "level_note": "Signature metadata per format is listed in harness/arts (e.g. META-INF/*.SF|RSA|EC|MANIFEST.MF for JAR; AppxManifest.xml for APPX because relic rewrites its Publisher by design). CAB, CAT, DMG, XAR and RPM have no independent payload reader here and are not covered by this check.",
    "quick": {"checks": 300, "timeout": 1200},
    "thorough": {"checks": 2500, "timeout": 3400, "shards": 8},
}
CHECKS["C08"] = {
    "pkg": "./props/c08",
    "level": "exploration",
    "technique": "stateful property-based testing (rapid): histories of re-signing with invariants after every step",
    "level_text": "For 16 package types a starting artefact is drawn (generated PE/MSI/JAR/PowerShell incl. ones carrying a third-party-style signature container, or a fixture incl. the tool-signed exe/appx/rpm) and signed 1-5 (thorough: up to 12) times with drawn key, digest, options and pipeline. After every step: relic verifies the output, exactly one signature exists (DEB: one per role slot, each from the latest key for that role) and it is from the latest key with the requested digest; the payload equals the original per independent reader; the content digest embedded for a given algorithm (extracted without relic from the PE certificate table, the MSI signature stream, the PowerShell block, the JAR manifest) equals the one first embedded, and for PE equals the harness reference Authenticode digest; the is-signed probe is false on unsigned generated inputs and true on every output.",
    "level_note": "Digest extraction exists for PE, MSI, PowerShell and JAR only; for the other types the history invariants are verify/one-signature/payload. XAP re-signing is a listed finding (excluded by construction after its probe).",
    "quick": {"checks": 110, "timeout": 1200, "env": {"VERIF_C08_STEPS": 5}},
    "thorough": {"checks": 700, "timeout": 3400, "shards": 8, "env": {"VERIF_C08_STEPS": 12}},
}
CHECKS["C18"] = {
    "pkg": "./props/c18",
    "level": "exploration",
    "technique": "stateful property-based testing (rapid) with a harness CFB generator, an MS-CFB validator as oracle, a stream-set model and a reference MSI digest",
    "level_text": "Generated compound files (512/4096-byte sectors, with/without mini stream, streams around the 4096 cutoff, nested storages, free-sector patterns, fragmented chains, directory padding and holes, DIFAT sectors; one file in 40 has its FAT full, with 0-7 sectors of slack, at exactly 109 FAT sectors - thorough also 109+127 - so that the next allocation needs a new DIFAT sector) are edited through relic's comdoc writer with drawn histories of AddFile (signature stream names and other names incl. case variants; sizes on both sides of the cutoff), replace, DeleteFile and Close+reopen. After every close a validator written from MS-CFB must find no violation (header counts, FAT/DIFAT/miniFAT chains in bounds, acyclic and disjoint, no leaked sectors, directory red-black tree correctly ordered and coloured) and every stream and storage must equal the model in name, metadata and bytes. Separately the MSI digest from the tar stream (drawn read sizes) must equal the digest from the container and a harness reference computation (with and without the extended pre-hash).",
    "level_note": "Trusts the harness validator and generator (cross-checked against each other and against the repository's dummy.msi). The reference MSI digest follows the osslsigncode algorithm; the extended pre-hash reference is of medium confidence (same field selection as relic).",
    "quick": {"checks": 3500, "timeout": 900, "env": {"VERIF_C18_OPS": 8}},
    "thorough": {"checks": 30000, "timeout": 3400, "shards": 8, "env": {"VERIF_C18_OPS": 30}},
}
CHECKS["C16"] = {
    "pkg": "./props/c16",
    "level": "exploration",
    "technique": "property-based round-trip testing (rapid) with an independent DER walker/verifier as oracle, OpenSSL cross-check on a sample",
    "level_text": "Harness-built third-party-style SignedData (unsorted signed attributes, extra attributes incl. unknown OIDs, several certificates and CRLs in any order, 1-3 SignerInfos, RSA PKCS#1 / RSA-PSS / ECDSA, NULL vs absent digest parameters, nested countersignatures and RFC 3161 tokens, attached/detached/non-data content) and harness-TSA tokens in many option combinations go through relic's Unmarshal -> Marshal, Detach and timestamp embedding; every signed region located by an independent DER walker must still be present byte-identically and every signature, countersignature and token must still verify with Go crypto (openssl cms -verify on a sample). The PKCS#7 inside relic's own PE, MSI, PowerShell, JAR and catalog outputs (drawn key, digest, options) must carry content-type and message-digest exactly once and consistent with the content, verify over exactly the emitted SET OF bytes under the configured leaf, keep a re-signed catalog's content byte-identical, and survive relic's own round trip byte-identically; CRLs (Go-made and hand-encoded) travel in the generated values; a re-sign over a parsed ContentInfo must carry it byte for byte; a key whose certificate comes from a CA with UTF8String/T61String name values must yield a SignerInfo issuer equal to the certificate's issuer bytes; a token with a two-valued message-digest attribute is refused or emitted single-valued; tokens handed to TimestampAndMarshal by a scripted Timestamper (valid, attributes signed in another order than emitted, content swapped after signing, bad signature, wrong imprint, duplicate digest) are refused or the emitted token passes the independent token verifier.",
    "level_note": "Trusts the harness DER walker/verifier (cross-checked against openssl cms/ts and the Microsoft-signed fixture catalog). BER framing and subjectKeyIdentifier signer ids are excluded because relic's parser refuses them explicitly (no re-encoding happens).",
    "quick": {"checks": 2000, "timeout": 900},
    "thorough": {"checks": 15000, "timeout": 3400, "shards": 8},
}
CHECKS["C19"] = {
    "pkg": "./props/c19",
    "level": "exploration",
    "technique": "differential and metamorphic property-based testing (rapid): relic canonicaliser vs JDK exclusive c14n; sign / re-serialise / mutate / verify; JDK XML-DSig validation",
    "level_text": "Grammar-generated manifests covering every namespace, attribute, text, comment, PI and prolog edge class (switchable individually) are serialised in a drawn style; for a drawn subtree relic's SerializeCanonical must equal the JDK's exclusive canonicaliser byte for byte. Generated manifests are signed as application manifests (RSA-2048/3072, P-256/384/521; SHA-1..512), must verify in relic (and, for the standard SHA-1 URIs, in the JDK's XML-DSig validator), must still verify after a canonical-meaning-preserving re-serialisation (attribute order, quotes, empty-element form, char refs vs literals, CDATA, comments, redundant and unused namespace declarations, prolog) and must fail after one meaning-changing edit outside the Signature. SignatureValue widths, publicKeyToken (independent strong-name computation, RSA) and publisherIdentity (SHA-1 of the issuer key, subject name) are checked. VSIX package signatures (inclusive c14n declared) are validated by the JDK for every key and digest.",
    "level_note": "Trusts JDK 17 (Apache Santuario canonicalisers, javax.xml.crypto.dsig) and the harness XML generator/re-serialiser (itself property-tested against the JDK). Microsoft's non-standard sha256/384/512 algorithm URIs cannot be validated by the JDK, so there the evidence is relic's verifier plus the canonicaliser differential.",
    "quick": {"checks": 1000, "timeout": 1200},
    "thorough": {"checks": 12000, "timeout": 3400, "shards": 8},
}
CHECKS["C07"] = {
    "pkg": "./props/c07",
    "level": "exploration",
    "technique": "property-based testing (rapid) over generated key/certificate configurations with an independent extraction of the embedded leaf and signature check",
    "level_text": "Configurations are generated per case: private key from a pool of 7 (two RSA-2048, RSA-3072, two P-256, P-384, P-521) x certificate made for the same key, another key of the same kind, another kind, or the same curve with another point x chain order (leaf first/last/middle, with/without intermediate and root; self-signed leaf alone, followed by unrelated certificates, or not first) x container (PEM, concatenated DER, certs-only PKCS#7 PEM/DER, PKCS#12 bundle, token-stored certificate, token that hands out another key than the certificate's) x PGP certificate of the same/another key x 12 signature types. If the certificate relic treats as leaf does not belong to the signing key, signing must fail, leave the input untouched and emit nothing; if a signature is emitted, the first embedded certificate must be the signing key's and the signature must verify under it (PKCS#7 types: independent DER walker + Go crypto; others: relic's verifier with that certificate / PGP key as the only acceptable signer). The two guards behind the loader are also called directly (PKCS#7 builder with data / detached / typed content and extra attributes; XML-DSig enveloped and enveloping with every option combination) with drawn certificate lists: they sign iff the first certificate belongs to the key, and then the output names that certificate and verifies under it. A rotated key behind the key cache: a lookup pinned to a key identifier yields a signature that verifies under that version's certificate, whatever the cache holds.",
    "level_note": "File token and a recording token registered through token.Openers; PKCS#11/cloud tokens not exercised. A matching configuration may be refused only for the documented manifest requirement (issuer certificate must be in the chain).",
    "quick": {"checks": 4000, "timeout": 900},
    "thorough": {"checks": 30000, "timeout": 3400, "shards": 8},
}
CHECKS["C02"] = {
    "pkg": "./props/c02",
    "level": "exploration",
    "technique": "metamorphic property-based testing (rapid): mutate protected regions (computed from the format specifications by independent readers) of signed artefacts; verifier must reject",
    "level_text": "18 artefact kinds (PE, MSI, JAR, APK, VSIX, XAP, APPX, PowerShell, Mach-O, CAB, DMG, XAR, RPM, DEB, catalog, PGP detached/clearsign/inline) are signed with drawn key and digest; the harness computes protected byte ranges from the format specifications with independent readers (PE layout parser, CFB reader incl. mini-stream ranges, ZIP directory, Mach-O sections, CAB/DMG/XAR/RPM/ar headers, PGP v4 packet structure, DER walker for signed attributes, message digest, content octets, signature value and leaf certificate) and applies bit flips, overwrites, 2-8 byte scrambles and truncations there, plus semantic edits (replace/delete/add ZIP member, graft a signature onto other content, append data after or inside the signature container, add or change an MSI stream by rebuilding the container, add a JAR member that is also listed in a new manifest section, rewrite a JAR member with manifest and .SF recomputed while the block-embedded signature file stays, rebuild the APK v2 block with a foreign key that lists the original certificates, append script text after a PowerShell signature block, flip bytes of XAR heap files at any directory depth, insert an unsigned data.tar.* / control.tar.* member in front of the real one of a DEB, put the certificate table of another signed PE image next to the genuine entry). A mutation that the independent reader shows to leave protected content unchanged is discarded and counted. relic's verifier (digests and chain on) must reject every remaining mutant.",
    "level_note": "Protected sets follow the specifications, not relic (e.g. the outer ContentInfo framing, PGP unhashed subpackets, [Content_Types].xml of OPC packages and unlisted JAR members are not claimed protected). A verifier panic on a mutant is counted, not reported here (C11's subject).",
    "quick": {"checks": 60, "timeout": 1500, "env": {"VERIF_C02_MUTATIONS": 10}},
    "thorough": {"checks": 400, "timeout": 3400, "shards": 8, "env": {"VERIF_C02_MUTATIONS": 25}},
}
CHECKS["C05"] = {
    "pkg": "./props/c05",
    "level": "exploration",
    "technique": "differential property-based testing (rapid) against independent reference verifiers and specification-derived reference computations",
    "level_text": "relic-signed artefacts (generated PE, MSI, JAR, APK with members around the 1 MiB chunk size, PGP payloads; fixtures for DEB and RPM; drawn key, digest and options) are handed to code that shares nothing with relic: jarsigner -verify -strict with the harness CA as trust anchor; openssl cms -verify of the JAR signature block over the .SF file (chain to the harness CA); gpgv for detached / clearsign / inline PGP signatures (recovered text compared), for DEB role members (plus md5sum/sha1sum/size of every listed member, dpkg-deb -I/-c) and for the RPM header-only and header+payload signatures cut out of the signature header by an independent parser; and reference computations written from the specifications, compared with the digest the independent DER walker extracts from relic's signature: Authenticode PE image hash, page-hash table, PE checksum, WIN_CERTIFICATE framing and alignment, APK Signature Scheme v2 chunked digest, MSI stream-order digest and MsiDigitalSignatureEx pre-hash, cabinet image hash (header fields + folders + data, generated reserves and set identifiers). VSIX package signatures (all keys and digests; generated packages with part names containing ', >, &, ;, % and non-ASCII characters) and SHA-1 ClickOnce manifest signatures are validated by the JDK's javax.xml.crypto.dsig. Authenticode SignedData is verified with the DER walker + Go crypto.",
    "level_note": "signtool, codesign, apksigner, msiexec and .NET are not available offline: platform acceptance is approximated by the reference computations. JDK policy treats SHA-1 JAR signatures as unsigned (counted, not judged); inputs the JDK's own ZIP reader refuses are counted, not judged. The CAB header digest, XAR/Mach-O CMS and VSIX (see C19) are not covered here.",
    "quick": {"checks": 90, "timeout": 1500},
    "thorough": {"checks": 600, "timeout": 3400, "shards": 8},
}
CHECKS["C09"] = {
    "pkg": "./props/c09",
    "level": "exploration",
    "technique": "property-based testing (rapid) with harness-owned read schedules and scripted front servers; differential on the embedded content digest",
    "level_text": "(a) Every transform kind is read 2-4 times (optionally after a partially read, abandoned attempt, in a repetition test with an attempt that is never read, and for Mach-O with drawn auxiliary files) and all complete reads must be byte-identical; an abandoned gzip/snappy-compressed request followed by a retry over the same file must deliver the whole input (150 repetitions per encoding). (b) Signers are fed their upload stream under drawn read-size schedules on unsigned and relic-signed inputs, with the signer's boolean options drawn in both explicit states (1 byte, primes, straddling 4 KiB / 64 KiB / 1 MiB, short reads, data returned with EOF): signing must succeed like a whole read, the patched file must verify and the embedded content digest, extracted without relic (PE, MSI, PowerShell, JAR per-file digests, APK v2, Mach-O code directory hash and flags), must be identical. (c) The same input is signed standalone and through the real daemon behind 1-3 scripted front servers (503 before/after reading k bytes, connection reset, 406, pass) listed by a scripted directory that advertises identity / gzip / snappy / unknown encodings, with a drawn retry budget: any produced signature must verify and embed the standalone digest; scripts with only transient HTTP failures, a passing server and enough retries must succeed; a failure must leave the input untouched.",
    "level_note": "The Go scheduler is not owned by the harness: the abandoned-attempt race is attacked by repetition (60 per transform, thorough 2000). Connection resets may or may not be failed over (unspecified), only the result's integrity is judged there.",
    "quick": {"checks": 400, "timeout": 1500, "env": {"VERIF_C09_ABANDON_REPS": 60}},
    "thorough": {"checks": 4000, "timeout": 3400, "shards": 8, "env": {"VERIF_C09_ABANDON_REPS": 2000}},
}
CHECKS["C10"] = {
    "pkg": "./props/c10",
    "level": "exploration",
    "technique": "model-based property testing (rapid) with scripted RFC 3161 / legacy timestamp authorities; metamorphic token grafting; validity-window sweep",
    "level_text": "Three RFC 3161 and two legacy Microsoft authorities (harness encoder, cross-validated with openssl ts) each get one drawn behaviour per case (valid, granted-with-mods, wrong nonce, nonce omitted, wrong imprint, wrong imprint algorithm, rejection, rejection with a token attached, waiting, granted without token, bad token signature, HTTP 500, garbage, truncated, wrong content type, hang until timeout); 14 timestamp-capable signature types, all keys, several digests are signed through relic's configured timestamper. Model: the token of the first authority whose reply is acceptable per the statement is attached (identified by its certificate and attested time), earlier authorities were contacted, later ones were not; no acceptable reply => signing fails and the input is untouched; no-timestamp => no request. At library level a token over another signature value, a token with a bad signature, a genuine token whose TSTInfo was swapped afterwards, a legacy countersignature lifted from another signature, or an altered host signature must fail verification while the matching token verifies including its chain. Signer certificates with drawn lifetimes and attested times (inside, outside, and within one second of both edges) must verify iff the attested time lies inside the lifetime, or, without a timestamp, iff the current time does; a token signed by a certificate without the time-stamping usage never establishes the time; after an in-lifetime acceptance a second signature by the same certificate outside the lifetime is still refused (one trust pool per root set, as in one verify invocation). Failures a late reply could explain must repeat three times.",
    "level_note": "Trusts the harness TSA encoder (its own tests validate it with openssl ts -verify). The memcached timestamp cache and the rate limiter are not exercised. Hang behaviours are rare because each costs the 1 s client timeout.",
    "quick": {"checks": 350, "timeout": 1500},
    "thorough": {"checks": 4000, "timeout": 3400, "shards": 8},
}
CHECKS["C06"] = {
    "pkg": "./props/c06",
    "level": "exploration",
    "technique": "history-based property testing (rapid): concurrent request mixes against the real daemon under injected audit-sink faults; invariants over responses and the audit file",
    "level_text": "Histories of 1-24 /sign requests (valid, via an alias, unknown key, key of a role the client lacks, unknown signature type, unknown digest, body the signer rejects) are issued by 1-16 concurrent TLS clients to the real daemon while the audit configuration is in one of: writable file, file in a missing directory, a directory in place of the file, /dev/full (ENOSPC), AMQP broker refusing connections, file plus refusing broker. Each request carries a unique file name. Invariants: every 2xx response has exactly one record, already present in the file when the response arrives, naming the resolved key, signature type, digest, certificate fingerprint (the PGP fingerprint when a key with both kinds of certificate makes a PGP signature), client name, client address and file name; failed requests leave no record; record count = 2xx count; every line is exactly one JSON object; with any sink failing no 2xx is returned. The relic binary is run with the same sink states: exit status 0 iff exactly one new, correct record.",
    "level_note": "Successful AMQP delivery cannot be exercised offline. Runs as root, so permission-based faults are replaced by structural ones (directory in place of the file, /dev/full).",
    "quick": {"checks": 400, "timeout": 1200},
    "thorough": {"checks": 5000, "timeout": 3400, "shards": 8},
}
CHECKS["C15"] = {
    "module": "harness26", "go": "go1.26.8", "pkg": "./props/c15", "engine": "rapid+synctest",
    "level": "exploration",
    "technique": "model-based property testing (rapid) of the real retry loop under a synctest fake clock with a scripted transport; state-machine testing of the token cache",
    "level_text": "Per-attempt outcome scripts (success, HTTP 500/502/503/504/507, 400/403/404, connection refused, per-attempt timeout, retryable / non-retryable token error, key-usage error, malformed reply) up to retry limits 1-8 are replayed to the real worker-token client (constructed through a verif-tagged hook, requests through http.DefaultClient with a scripted RoundTripper) for ping, get-key and sign, optionally with caller cancellation at a drawn fake instant. Model: attempts stop at the first success or non-transient outcome and never exceed the limit; success iff some attempt succeeded; key-usage errors keep their type and key name; delays between attempts lie in [1 s, 30 s], never shrink and grow by a factor e until the cap (exact under the fake clock); cancellation returns at the same fake instant and no attempt starts afterwards; every request carries the per-process secret. The real worker RPC handler (hook) in front of a scripted token must answer 403 without touching the token for a wrong or missing secret and carry the retryable / usage / key classification across the RPC boundary. The token cache is driven as a state machine {get, get pinned to a key id, rotate, advance clock}: a pinned request never gets a key with another id, a cached key is served exactly until it expires.",
    "level_note": "Trusts go1.26.8 testing/synctest. Uses two add-only hooks guarded by the build tag verif (token/worker/verif_hooks.go, cmdline/workercmd/verif_hooks.go) that only construct otherwise unexported structs. The worker subprocess life cycle (spawn, restart) is not exercised.",
    "quick": {"checks": 10000, "timeout": 600, "vmem_kb": 0},
    "thorough": {"checks": 60000, "timeout": 3000, "vmem_kb": 0, "shards": 8},
}
CHECKS["C13"] = {
    "pkg": "./props/c13", "engine": "strace-fault-injection",
    "level": "fault_enumeration",
    "technique": "generated crash points: SIGKILL injected with strace at the k-th file-system call of the real relic binary, rapid-drawn (quick) or enumerated over every candidate boundary of a reference trace (thorough)",
    "level_text": "The relic binary built from the tree signs with the file token to a path other than the input under strace -f with a SIGKILL injected on entry to the k-th openat / write / pwrite64 / copy_file_range / fchmod / ftruncate / close / unlinkat / renameat, for 8 scenarios covering the output strategies (patch-by-rewrite for PE, JAR, PowerShell; copy-then-edit for MSI; whole-file write for PGP detached, catalog, manifest; PGP clearsign merge) x destination absent / pre-existing. Candidate k values come from an uninjected reference trace (every per-thread call index from the creation of the temporary file onwards, plus one); the boundary actually hit is read from the injected run's own trace. A second generator makes the k-th output-phase write / pwrite64 / copy_file_range / fchmod / ftruncate / renameat fail with an error (ENOSPC, EPERM, EIO, EACCES) instead of killing the process: whatever relic's exit status, no temporary sibling may remain and the input is unchanged, and an exit status of 0 requires a complete artefact (quick: 40 drawn points, thorough: every candidate). After each killed run: input unchanged; a pre-existing destination still exists; the destination is byte-identical to its previous content or a complete artefact (relic verify, independent well-formedness, PE checksum); no temporary siblings after normal completion; a missing destination directory is a handled error that leaves nothing behind. Quick draws 60 injected runs, thorough runs every candidate.",
    "level_note": "strace counts per thread and Go moves goroutines between threads, so a given (call, k) may hit different boundaries on different runs; coverage is reported as distinct boundaries hit, not assumed. Process death only: unsynced data after power loss is not modelled. The PE checksum fix-up window is a listed finding.",
    "quick": {"checks": 120, "timeout": 1500, "env": {"VERIF_C13_RUNS": 60}},
    "thorough": {"checks": 1, "timeout": 3400, "env": {"VERIF_C13_ROUNDS": 8}},
}
CHECKS["C14"] = {
    "pkg": "./props/c14", "race": True, "engine": "rapid+race-detector",
    "level": "exploration",
    "technique": "property-based testing (rapid) of generated concurrent request mixes against the real daemon built with the Go race detector; per-request isolated-verdict oracle",
    "level_text": "Generated mixes of 4-64 requests (sign over 6 signature types incl. APK x 12 keys incl. three behind a latency-injecting recording token and three configured with the default or a named time-stamp authority x 3 digests x generated bodies; list-keys; key-info incl. forbidden and unknown keys; health) are issued by 2-32 concurrent clients over TLS to the real daemon (one child process of the same race-built binary per mix, living exactly as long as Serve, like the serve command) with GOMAXPROCS in {2,4,16}, token cache expiry 1 s and an optional token rate limit (200/s, or 25/s with burst 1 so that requests queue); one mix in six shuts the daemon down while a request is parked inside the token. Each response is compared with its isolated verdict (signature applied to that request's own body verifies under relic's verifier and names that request's key and digest and is countersigned by exactly the authority configured for that key; listings equal the configuration), audit records are counted, 2-32 goroutines append records below and above 4 KiB to one audit file and every record must be there exactly once as one JSON line, and the whole run is under the race detector.",
    "level_note": "Interleavings are sampled by repetition, not enumerated; the race detector only sees accesses that happen. PKCS#11/cloud tokens and the worker subprocess path are not exercised here.",
    "quick": {"checks": 40, "timeout": 900, "vmem_kb": 0},
    "thorough": {"checks": 450, "timeout": 3400, "vmem_kb": 0, "shards": 6},
}
CHECKS["C11"] = {
    "pkg": "./props/c11", "engine": "rapid+isolation-child (+ native go fuzz in thorough)",
    "level": "exploration",
    "technique": "fuzzing: structure-aware generated corruption (rapid) of valid and signed artefacts and upload bodies at every parser entry point inside an isolation child, a replayed crasher corpus, and coverage-guided native go fuzzing in the thorough tier; resource oracle on allocation and CPU",
    "level_text": "Inputs are 1-4 structure-aware corruptions (offset/length-looking fields set to boundary values, bit flips, truncation, duplication / deletion / zeroing / insertion of chunks, cross-format splices; and, inside containers whose framing stays valid, the same on a ZIP member re-stored with a correct CRC or on the re-deflated xar table of contents, and tree mutations of XML documents: elements duplicated, dropped, moved, inserted from the signature vocabulary, nested 50-20000 deep) of 60+ valid and relic-signed artefacts of all 19 signer modules (fixtures and signed siblings) or of the upload stream the client transform produces, presented to verify (integrity + chain), the is-signed probe, the client transform, server-side Sign, transform-then-Sign, type detection and the certificate loader, with the module detected or forced. Each case runs in an isolation child under a 2 GiB address-space cap: the child must stay alive (no panic in any goroutine, no runtime abort), report no recovered panic, allocate <= 96 MiB + 512 x input bytes in total and burn <= 15 s + 20 ms/KiB CPU, and not block. Saved crashers (testdata/crashers) are replayed first. The thorough tier adds a coverage-guided go fuzz campaign over (entry, module, bytes) seeded with all bases and crashers.",
    "level_note": "Resource proportionality is judged against fixed generous multiples, not asymptotically. Wall-clock time is never a verdict. Failures inside the third-party RPM reader are listed findings keyed by site. The HTTP layer in front of Sign is exercised by C14/C04, not here. Native fuzzing cannot be seeded: its saved crasher is the reproducible unit.",
    "run": "^TestC11",
    "quick": {"checks": 25000, "timeout": 1500, "shards": 8},
    "thorough": {"checks": 400000, "timeout": 3400, "shards": 12,
                 "fuzz": {"pkg": "./props/c11f", "target": "FuzzEntry", "time": "1500s", "parallel": 8}},
}
for _pid in CHECKS:
    NOT_APPLICABLE.pop(_pid, None)
