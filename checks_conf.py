# Per-property run configuration for ./check (tier knobs only; the oracles live in the Go tests)
# plus the MANIFEST text for each claimed check (tools/mkmanifest.py writes MANIFEST.json from this).

HOOK_COMMITS = []

_PENDING = "check not built yet in this round (see DESIGN.md build order); not claimed until it runs green on the unchanged tree"

NOT_APPLICABLE = {pid: _PENDING for pid in
                  ["C01", "C02", "C03", "C04", "C05", "C06", "C07", "C08", "C09", "C10",
                   "C11", "C13", "C14", "C15", "C16", "C17", "C18", "C19", "C20"]}

CHECKS = {
    "C12": {
        "pkg": "./props/c12",
        "level": "exploration",
        "technique": "property-based testing: exhaustive small-scope enumeration + rapid random generation against a reference splice model",
        "level_text": "Every file of length <= L (quick 5, thorough 6) x every list of <= 3 disjoint ranges x blob length <= 2 x every Add call order x {Dump/Load via signers.ApplyBinPatch, direct Apply} x 5 path modes is enumerated completely and compared with a harness-owned reference splice; rapid adds random larger files (<= 9000 bytes, <= 12 patches), sparse files with > 4 GiB removed ranges, an independent decode of the Dump wire format, and truncated/corrupt patch blobs that must be refused with target and destination untouched and no temp files left.",
        "level_note": "Trusts the harness reference splice (15 lines) and the OS file system (tmpfs when /dev/shm exists). Same-offset patches that are not consecutive Add calls are excluded (unspecified order). Not a proof beyond the enumerated bounds.",
        "quick": {"checks": 3000, "timeout": 600, "env": {"VERIF_C12_MAXLEN": 5, "VERIF_C12_SPARSE": 6}},
        "thorough": {"checks": 60000, "timeout": 3000, "env": {"VERIF_C12_MAXLEN": 6, "VERIF_C12_SPARSE": 60}},
    },
}
for _pid in CHECKS:
    NOT_APPLICABLE.pop(_pid, None)
