#!/bin/bash
# tools/c11repro.sh <relic-tree> <dir-with-*.json+*.bin>
# Replays saved C11 inputs against a relic source tree (e.g. a scratch worktree): builds a
# private copy of the harness whose replace directive points at <relic-tree>.
set -u
tree=$(realpath "$1"); dir=$(realpath "$2")
export GOFLAGS=-mod=mod GOPROXY=off GOSUMDB=off GOTOOLCHAIN=local
H=$(mktemp -d /dev/shm/c11h-XXXXXX)
trap 'rm -rf "$H"' EXIT
cp -r /verif/harness/. "$H"/
sed -i "s|=> /repo|=> $tree|" "$H/go.mod"
(cd "$H" && go test -c -tags verif -o "$H/t" ./props/c11) || { echo "BUILD FAILED"; exit 2; }
cd "$H" && VERIF_C11_DIR="$dir" VERIF_ROOT=/verif VERIF_KNOWN=/verif/KNOWN_FINDINGS.jsonl TMPDIR="$H" ./t -test.run 'TestC11_Regressions' 2>&1 | grep -v "^\s*$" | cut -c1-${WIDTH:-400}
