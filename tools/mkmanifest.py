#!/usr/bin/env python3
"""Regenerate MANIFEST.json from checks_conf.py (claimed checks) and not_applicable.json."""
import json, os, sys
ROOT = os.path.dirname(os.path.dirname(os.path.abspath(__file__)))
sys.path.insert(0, ROOT)
from checks_conf import CHECKS, NOT_APPLICABLE, HOOK_COMMITS

props = [json.loads(l)["id"] for l in open(os.path.join(ROOT, "properties.jsonl")) if l.strip()]
checks = []
for pid in props:
    c = CHECKS.get(pid)
    if not c or not c.get("claimed", True):
        continue
    checks.append({
        "property_id": pid,
        "quick_cmd": "./check %s --tier quick" % pid,
        "thorough_cmd": "./check %s --tier thorough" % pid,
        "evidence_file": "/verif/evidence/%s.json" % pid,
        "replay_cmd_template": "./check %s --replay {path}" % pid,
        "engine": c.get("engine", "rapid"),
        "level_claimed": {"category": c.get("level", "exploration"), "text": c["level_text"], "design_ref": "DESIGN.md §3 " + pid},
        "level_note": c["level_note"],
        "technique": c["technique"],
    })
na = [{"property_id": pid, "reason": NOT_APPLICABLE[pid]} for pid in props if pid in NOT_APPLICABLE]
missing = [p for p in props if p not in [c["property_id"] for c in checks] and p not in NOT_APPLICABLE]
assert not missing, "unclaimed and not in NOT_APPLICABLE: %s" % missing
m = {
    "version": 1,
    "setup_cmd": "./setup.sh",
    "hooks": {
        "guard": "verif",
        "enable": "go build/test -tags verif (the ./check driver always passes -tags verif)",
        "baseline_off_cmd": "cd /repo && go test -vet=off -count=1 -timeout 25m ./...",
        "source_commits": HOOK_COMMITS,
        "add_only": True,
    },
    "engines": [
        {"name": "rapid", "path": "harness/", "serves_properties": [c["property_id"] for c in checks if c["engine"] == "rapid"],
         "kind_free_text": "pgregory.net/rapid v1.3.0 property-based tests (stateful t.Repeat for histories, exhaustive small-scope enumerators) compiled against /repo's working tree via a replace directive; driven by ./check"},
        {"name": "rapid+synctest", "path": "harness26/", "serves_properties": [c["property_id"] for c in checks if c["engine"] == "rapid+synctest"],
         "kind_free_text": "rapid under go1.26.8 testing/synctest (fake clock) for time-dependent histories"},
        {"name": "strace-fault-injection", "path": "harness/props/c13", "serves_properties": [c["property_id"] for c in checks if c["engine"] == "strace-fault-injection"],
         "kind_free_text": "generated (scenario, syscall, k) crash points injected into the real relic binary with strace -e inject=...:signal=KILL"},
    ],
    "checks": checks,
    "not_applicable": na,
    "notes": "All checks: ./check <id> [--tier quick|thorough] [--replay path]. Known findings: KNOWN_FINDINGS.jsonl (never written at run time). See DESIGN.md.",
}
m["engines"] = [e for e in m["engines"] if e["serves_properties"]]
with open(os.path.join(ROOT, "MANIFEST.json"), "w") as f:
    json.dump(m, f, indent=1)
    f.write("\n")
print("claimed:", [c["property_id"] for c in checks], "n/a:", [x["property_id"] for x in na])
