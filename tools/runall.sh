#!/bin/bash
# tools/runall.sh <tier> <seed> [ids...] — run checks sequentially, one summary line each
tier=${1:-quick}; seed=${2:-1}; shift 2
ids=${@:-C01 C02 C03 C04 C05 C06 C07 C08 C09 C10 C11 C12 C13 C14 C15 C16 C17 C18 C19 C20}
for c in $ids; do
  t0=$(date +%s)
  out=$(VERIF_SEED=$seed ./check $c --tier $tier 2>&1); rc=$?
  echo "$c tier=$tier seed=$seed exit=$rc wall=$(( $(date +%s) - t0 ))s $(echo "$out" | grep -c '^KNOWN-FINDING') known | $(echo "$out" | grep '^VIOLATION\|^INCONCLUSIVE' | head -1)"
done
