#!/bin/bash
# tools/import_seed.sh <id>: move /tmp/seed-<id>-out/{a,b} to /verif/seeded/<id>/ and drop the worktree
id=$1
for v in a b c d e f g h i j k l; do
  src=/tmp/seed-$id-out/$v
  [ -f $src/patch.diff ] || continue
  dst=/verif/seeded/$id/$v
  mkdir -p $dst && cp -r $src/. $dst/
  git -C /repo apply --check $dst/patch.diff && echo "$id/$v applies" || echo "$id/$v DOES NOT APPLY"
done
git -C /repo worktree remove --force /tmp/seed-$id 2>/dev/null
rm -rf /tmp/seed-$id-out
