#!/usr/bin/env python3
"""tools/mkresults.py: regenerate seeded/RESULTS.md from seeded/results.json (run_seeded.py does
this itself at the end of a run; use after an interrupted run)."""
import json, os
ROOT = os.path.dirname(os.path.dirname(os.path.abspath(__file__)))
SEEDED = os.path.join(ROOT, "seeded")
results = json.load(open(os.path.join(SEEDED, "results.json")))
lines = ["# Seeded changes and the checks that catch them", "",
         "Each row: a deliberately broken variant of relic (compiles, passes relic's own test suite) and the exit code of the listed checks with the patch applied (1 = VIOLATION reported, 0 = missed, 2 = inconclusive).", "",
         "| seeded change | what it breaks | checks (exit) |", "|---|---|---|"]
for k in sorted(results):
    e = results[k]
    if not e.get("applies"):
        lines.append("| %s | (patch no longer applies) | - |" % k)
        continue
    cs = ", ".join("%s %s: %d" % (c, v.get("tier", "quick"), v["exit"]) for c, v in sorted(e["checks"].items()))
    note = (" NOTE: " + e["note"]) if e.get("note") else ""
    lines.append("| %s | %s | %s |" % (k, (e.get("summary", "") + note).replace("|", "/"), cs))
open(os.path.join(SEEDED, "RESULTS.md"), "w").write("\n".join(lines) + "\n")
print(len(results), "rows")
