#!/bin/bash
# tools/c11collect.sh <seed> <checks> [relic-tree] [outdir] — development aid: run the C11
# search in collect mode against a relic tree (default /repo): no failure on new sites;
# every distinct site is listed and one input per site saved as <outdir>/<site>.{bin,json}.
set -u
seed=${1:-1}; checks=${2:-20000}; tree=$(realpath "${3:-/repo}"); out=${4:-/dev/shm/c11dbg/collect}
export GOFLAGS=-mod=mod GOPROXY=off GOSUMDB=off GOTOOLCHAIN=local
H=$(mktemp -d /dev/shm/c11h-XXXXXX)
trap 'rm -rf "$H"' EXIT
cp -r /verif/harness/. "$H"/
sed -i "s|=> /repo|=> $tree|" "$H/go.mod"
(cd "$H" && go test -c -tags verif -o "$H/t" ./props/c11) || { echo "BUILD FAILED"; exit 2; }
mkdir -p "$out"
cd "$H" && VERIF_C11_COLLECT="$out" VERIF_ROOT=/verif VERIF_KNOWN=/verif/KNOWN_FINDINGS.jsonl TMPDIR="$H" \
  ./t -test.run TestC11_Corruptions -rapid.checks $checks -rapid.seed $seed > "$H/out.txt" 2>&1
grep -A1 "^NEW-SITE" "$H/out.txt" | cut -c1-${WIDTH:-330}
tail -3 "$H/out.txt" | cut -c1-300
