#!/usr/bin/env python3
"""tools/run_seeded.py [<id> ...] [--tier quick] [--only name]

For every /verif/seeded/<id>/<name>/patch.diff: apply it to a scratch clone of /repo
(HEAD + the patch; /repo itself is never touched), run ./check <id> with VERIF_REPO
pointing at the clone (plus the ids listed under "also" in meta.json) and record the exit
codes. Writes seeded/RESULTS.md and seeded/results.json.
"""
import json, os, subprocess, sys, time, glob

ROOT = os.path.dirname(os.path.dirname(os.path.abspath(__file__)))
SEEDED = os.path.join(ROOT, "seeded")


def sh(cmd, **kw):
    return subprocess.run(cmd, shell=True, stdout=subprocess.PIPE, stderr=subprocess.STDOUT, text=True, **kw)


def main():
    args = [a for a in sys.argv[1:] if not a.startswith("--")]
    tier = "quick"
    only = None
    for i, a in enumerate(sys.argv):
        if a == "--tier":
            tier = sys.argv[i + 1]
            args = [x for x in args if x != tier]
        if a == "--only":
            only = sys.argv[i + 1]
            args = [x for x in args if x != only]
    clone = os.path.join("/dev/shm" if os.path.isdir("/dev/shm") else "/tmp", "repo-seeded-%d" % os.getpid())
    resfile = os.path.join(SEEDED, "results.json")
    results = json.load(open(resfile)) if os.path.exists(resfile) else {}
    ran = []
    for d in sorted(glob.glob(os.path.join(SEEDED, "C*", "*", "patch.diff"))):
        name = os.path.basename(os.path.dirname(d))
        pid = os.path.basename(os.path.dirname(os.path.dirname(d)))
        if args and pid not in args:
            continue
        if only and name != only:
            continue
        meta = {}
        mp = os.path.join(os.path.dirname(d), "meta.json")
        if os.path.exists(mp):
            meta = json.load(open(mp))
        sh("rm -rf %s && git clone -q --no-hardlinks /repo %s" % (clone, clone))
        ap = sh("git -C %s apply --whitespace=nowarn %s" % (clone, d))
        if ap.returncode != 0:
            results["%s/%s" % (pid, name)] = {"applies": False, "error": ap.stdout[-400:]}
            sh("rm -rf %s" % clone)
            continue
        entry = {"applies": True, "summary": meta.get("summary", ""), "checks": {}, "note": meta.get("note", "")}
        env = dict(os.environ, GOFLAGS="-mod=mod", GOPROXY="off", GOSUMDB="off", GOTOOLCHAIN="local")
        b = sh("cd %s && go build ./..." % clone, env=env)
        entry["compiles"] = b.returncode == 0
        for cid in [pid] + meta.get("also", []):
            t0 = time.time()
            ran.append(cid)
            r = sh("cd %s && VERIF_REPO=%s VERIF_EVIDENCE_DIR=%s VERIF_REPLAYS_DIR=%s ./check %s --tier %s" % (ROOT, clone, clone + "-evidence", clone + "-evidence/replays", cid, tier))
            viol = [l for l in r.stdout.splitlines() if l.startswith("VIOLATION")]
            entry["checks"][cid] = {"exit": r.returncode, "violation": viol[:1], "wall_s": round(time.time() - t0, 1), "tier": tier}
            print("%s/%s -> %s exit %d (%.0fs)" % (pid, name, cid, r.returncode, time.time() - t0), flush=True)
            # replays produced by a seeded run are not findings on the real tree
            for v in viol:
                rp = v.split("replay=")[-1].strip()
                rd = os.path.join(ROOT, "replays", cid)
                if rp.startswith(rd):
                    sh("rm -rf %s" % os.path.join(rd, os.path.relpath(rp, rd).split(os.sep)[0]))
        sh("rm -rf %s %s-evidence" % (clone, clone))
        results["%s/%s" % (pid, name)] = entry
        json.dump(results, open(resfile, "w"), indent=1, sort_keys=True)
    lines = ["# Seeded changes and the checks that catch them", "",
             "Each row: a deliberately broken variant of relic (compiles, passes relic's own test suite) and the exit code of the listed checks with the patch applied (1 = VIOLATION reported, 0 = missed, 2 = inconclusive).", "",
             "| seeded change | what it breaks | checks (exit) |", "|---|---|---|"]
    for k in sorted(results):
        e = results[k]
        if not e.get("applies"):
            lines.append("| %s | (patch no longer applies) | - |" % k)
            continue
        cs = ", ".join("%s %s: %d" % (c, v.get("tier", "quick"), v["exit"]) for c, v in sorted(e["checks"].items()))
        note = (" NOTE: " + e["note"]) if e.get("note") else ""
        lines.append("| %s | %s | %s |" % (k, (e.get("summary", "") + note).replace("|", "/"), cs))
    open(os.path.join(SEEDED, "RESULTS.md"), "w").write("\n".join(lines) + "\n")


if __name__ == "__main__":
    main()
