#!/bin/bash
# tools/mutate.sh <property> <file-in-repo> <python-expr-old> <python-expr-new> [tier]
# Applies a textual mutation to /repo (working tree only), runs the check, reverts.
set -u
prop=$1; file=$2; old=$3; new=$4; tier=${5:-quick}
cd /repo || exit 9
if ! git diff --quiet; then echo "repo dirty"; exit 9; fi
python3 - "$file" "$old" "$new" <<'PY' || { git -C /repo checkout -- .; exit 9; }
import sys
p,old,new=sys.argv[1:4]
s=open(p).read()
if s.count(old)<1: sys.exit("pattern not found")
s=s.replace(old,new,1)
open(p,'w').write(s)
PY
if ! GOFLAGS=-mod=mod GOPROXY=off go build ./... ; then echo "MUTANT DOES NOT COMPILE"; git checkout -- .; exit 9; fi
cd /verif && ./check "$prop" --tier "$tier" 2>&1 | grep -v "rapid\] draw" | tail -${TAIL:-12}
rc=${PIPESTATUS[0]}
git -C /repo checkout -- .
echo "mutant exit=$rc"
