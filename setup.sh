#!/bin/bash
# Run once after a fresh restore, offline: warm the Go build cache for the harness.
set -u
cd "$(dirname "$0")"
export GOFLAGS=-mod=mod GOPROXY=off GOSUMDB=off GOTOOLCHAIN=local
python3 - <<'PY'
import sys, os
sys.path.insert(0, os.getcwd())
import importlib.machinery, importlib.util
loader = importlib.machinery.SourceFileLoader("check", os.path.join(os.getcwd(), "check"))
spec = importlib.util.spec_from_loader("check", loader)
mod = importlib.util.module_from_spec(spec); loader.exec_module(mod)
for d in ("harness", "harness26"):
    if os.path.isdir(d):
        mod.ensure_gosum(os.path.join(os.getcwd(), d))
PY
(cd harness && go vet -tags verif ./... >/dev/null 2>&1; go test -tags verif -count=1 -run '^$' ./... >/dev/null 2>&1)
if [ -d harness26 ]; then (cd harness26 && GOTOOLCHAIN=local go1.26.8 test -tags verif -count=1 -run '^$' ./... >/dev/null 2>&1); fi
mkdir -p evidence replays
exit 0
