#!/usr/bin/env python3
"""Reference ZIP lister (CPython zipfile) -- batch server.

Protocol: one file path per line on stdin; for each path exactly one line of
JSON on stdout (flushed).  EOF on stdin terminates the server.

  {"ok": true,
   "members": [ {"name": str,            # ZipInfo.orig_filename as Python decoded it
                 "filename": str,        # ZipInfo.filename (NUL-truncated, normalised)
                 "name_hex": hex,        # orig_filename encoded back (utf-8 if bit 11 else cp437)
                 "header_offset": int, "compress_size": int, "file_size": int,
                 "crc": int, "method": int, "flag_bits": int,
                 "sha256": hex|null,     # of the decompressed content; null for
                                         # directories (name ends in "/") and on read errors
                 "read_error": str,      # only present if reading the member raised
                 "comment_hex": hex, "extra_hex": hex,
                 "create_version": int, "create_system": int, "extract_version": int,
                 "internal_attr": int, "external_attr": int,
                 "dos_time": int, "dos_date": int}, ... ],   # central directory order
   "comment_hex": hex,
   "testzip": null | str}   # orig name of the first member (directories included)
                            # whose complete read raised (bad CRC, bad local header, ...)
  {"ok": false, "error": "<ExceptionClass>: msg"}   # ZipFile() / listing raised

Members are opened through their ZipInfo object, so duplicate names are read
individually (unlike ZipFile.testzip(), which looks names up).
"""
import hashlib
import json
import sys
import zipfile

CHUNK = 1 << 20
MAX_MEMBER = 1 << 30  # refuse to inflate more than 1 GiB per member


def read_member(zf, zi):
    h = hashlib.sha256()
    total = 0
    with zf.open(zi, "r") as f:
        while True:
            buf = f.read(CHUNK)
            if not buf:
                break
            total += len(buf)
            if total > MAX_MEMBER:
                raise ValueError("member larger than %d bytes" % MAX_MEMBER)
            h.update(buf)
    return h.hexdigest()


def raw_name(zi):
    enc = "utf-8" if zi.flag_bits & 0x800 else "cp437"
    return zi.orig_filename.encode(enc)


def listing(path):
    out = []
    first_bad = None
    with zipfile.ZipFile(path, "r") as zf:
        for zi in zf.infolist():
            d = zi.date_time
            m = {
                "name": zi.orig_filename,
                "filename": zi.filename,
                "name_hex": raw_name(zi).hex(),
                "header_offset": zi.header_offset,
                "compress_size": zi.compress_size,
                "file_size": zi.file_size,
                "crc": zi.CRC,
                "method": zi.compress_type,
                "flag_bits": zi.flag_bits,
                "sha256": None,
                "comment_hex": zi.comment.hex(),
                "extra_hex": zi.extra.hex(),
                "create_version": zi.create_version,
                "create_system": zi.create_system,
                "extract_version": zi.extract_version,
                "internal_attr": zi.internal_attr,
                "external_attr": zi.external_attr,
                "dos_time": getattr(zi, "_raw_time", (d[3] << 11) | (d[4] << 5) | (d[5] // 2)),
                "dos_date": ((d[0] - 1980) << 9) | (d[1] << 5) | d[2],
            }
            try:
                digest = read_member(zf, zi)
                if not zi.orig_filename.endswith("/"):
                    m["sha256"] = digest
            except Exception as e:  # noqa: BLE001 - report whatever the reader raises
                m["read_error"] = "%s: %s" % (type(e).__name__, e)
                if first_bad is None:
                    first_bad = zi.orig_filename
            out.append(m)
        return {"ok": True, "members": out, "comment_hex": zf.comment.hex(), "testzip": first_bad}


def main():
    stdin = sys.stdin.buffer
    stdout = sys.stdout
    while True:
        line = stdin.readline()
        if not line:
            break
        path = line.rstrip(b"\r\n")
        if not path:
            continue
        try:
            res = listing(path.decode("utf-8", "surrogateescape"))
        except Exception as e:  # noqa: BLE001
            res = {"ok": False, "error": "%s: %s" % (type(e).__name__, e)}
        stdout.write(json.dumps(res, ensure_ascii=True))
        stdout.write("\n")
        stdout.flush()


if __name__ == "__main__":
    main()
