// Package known loads /verif/KNOWN_FINDINGS.jsonl (read-only at run time).
package known

import (
	"bufio"
	"encoding/json"
	"os"
	"strings"
)

type Finding struct {
	Property string `json:"property"`
	Key      string `json:"key"`
	Status   string `json:"status"` // "open" or "fixed"
	What     string `json:"what"`
	Commit   string `json:"commit,omitempty"`
}

type Set map[string]Finding

// Load returns the open (unrepaired) findings of one property keyed by Key.
func Load(property string) Set {
	path := os.Getenv("VERIF_KNOWN")
	if path == "" {
		path = "/verif/KNOWN_FINDINGS.jsonl"
	}
	out := Set{}
	f, err := os.Open(path)
	if err != nil {
		return out
	}
	defer f.Close()
	sc := bufio.NewScanner(f)
	sc.Buffer(make([]byte, 1<<20), 1<<20)
	for sc.Scan() {
		line := strings.TrimSpace(sc.Text())
		if line == "" || strings.HasPrefix(line, "#") {
			continue
		}
		var fd Finding
		if json.Unmarshal([]byte(line), &fd) != nil {
			continue
		}
		if fd.Property == property && fd.Status != "fixed" {
			out[fd.Key] = fd
		}
	}
	return out
}

func (s Set) Has(key string) bool { _, ok := s[key]; return ok }
