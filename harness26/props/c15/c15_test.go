//go:build verif

// C15 — token failures are retried only when safe and reported faithfully.
//
// The real worker-token client (hook NewVerifClient) talks through a scripted
// http.RoundTripper installed as http.DefaultClient's transport, inside a
// testing/synctest bubble (fake clock); the real worker RPC handler (hook
// NewVerifHandler) runs against a scripted token.
package c15

import (
	"bytes"
	"context"
	"crypto"
	"crypto/ecdsa"
	"crypto/elliptic"
	"crypto/rand"
	"crypto/x509"
	"encoding/json"
	"errors"
	"fmt"
	"io"
	"math"
	"net"
	"net/http"
	"net/http/httptest"
	"os"
	"sync"
	"syscall"
	"testing"
	"testing/synctest"
	"time"

	"github.com/rs/zerolog"
	"pgregory.net/rapid"

	"github.com/sassoftware/relic/v8/cmdline/workercmd"
	"github.com/sassoftware/relic/v8/config"
	"github.com/sassoftware/relic/v8/internal/workerrpc"
	"github.com/sassoftware/relic/v8/token"
	"github.com/sassoftware/relic/v8/token/tokencache"
	"github.com/sassoftware/relic/v8/token/worker"
	"github.com/sassoftware/relic/v8/xverif26/evid"
	"github.com/sassoftware/relic/v8/xverif26/known"
)

var (
	rec      = evid.New("C15")
	knownSet = known.Load("C15")
	testKey  *ecdsa.PrivateKey
	pubDER   []byte
)

func TestMain(m *testing.M) {
	zerolog.SetGlobalLevel(zerolog.Disabled)
	testKey, _ = ecdsa.GenerateKey(elliptic.P256(), rand.Reader)
	pubDER, _ = x509.MarshalPKIXPublicKey(&testKey.PublicKey)
	rec.Rule("cases = (a) per-attempt outcome scripts (success, HTTP 500/502/503/504/507, HTTP 400/403/404, connection refused, per-attempt timeout, retryable token error, non-retryable token error, key-usage error, malformed reply) up to the configured retry limit (1-8) for ping / get-key / sign, with optional cancellation at a drawn fake instant, run on the real worker-token client over a scripted transport under a synctest fake clock; model = attempts stop at the first success or non-transient outcome, at most `retries`, success iff some attempt succeeded, error class preserved (key usage vs other), inter-attempt delays within [1 s, 30 s], non-decreasing and growing by e until the cap, cancellation returns at the same fake instant; (b) the real worker RPC handler with a scripted token: wrong or missing cookie => 403 and no token call; error classification (retryable, usage, key name) crosses the RPC boundary; (c) token cache as a state machine {get, get with pinned key id, rotate key, advance clock}: a pinned id is never served by a cached key of another id, a cached key is served only until it expires; non-trivial = script with >= 2 attempts or a cancellation, handler case with an error, cache history with a rotation; distinct = script / history rendering")
	rec.Assume("fake clock: go1.26.8 testing/synctest; the worker subprocess itself (spawn, restart) is not exercised, only its RPC handler and the client")
	evid.Main(m, rec)
}

// ---------- scripted transport ----------

type outcome int

const (
	oSuccess outcome = iota
	oHTTP500
	oHTTP502
	oHTTP503
	oHTTP504
	oHTTP507
	oHTTP400
	oHTTP403
	oHTTP404
	oRefused
	oTimeout
	oTokenRetryable
	oTokenFatal
	oKeyUsage
	oMalformed
	numOutcomes
)

var outcomeNames = []string{"success", "http500", "http502", "http503", "http504", "http507", "http400", "http403", "http404", "refused", "timeout", "token-retryable", "token-fatal", "key-usage", "malformed"}

func transient(o outcome) bool {
	switch o {
	case oHTTP500, oHTTP502, oHTTP503, oHTTP504, oHTTP507, oRefused, oTimeout, oTokenRetryable:
		return true
	}
	return false
}

type attempt struct {
	start, end time.Time
	cookie     string
	path       string
}

type scripted struct {
	mu       sync.Mutex
	script   []outcome
	attempts []attempt
	op       string
	// malformedKind selects which malformed body the first malformed attempt gets
	malformedKind int
}

var malformedBodies = []string{"{not json", "", "   \n", `{"Value":"c2lnbmF0dXJlLWJ5dGVz"} trailing`, `{"Value":"c2ln"}{"Err":"second object"}`}

func jsonResp(req *http.Request, status int, v any) *http.Response {
	blob, _ := json.Marshal(v)
	return &http.Response{StatusCode: status, Status: fmt.Sprintf("%d %s", status, http.StatusText(status)), Body: io.NopCloser(bytes.NewReader(blob)), Header: http.Header{"Content-Type": []string{"application/json"}}, Request: req}
}

func (s *scripted) RoundTrip(req *http.Request) (*http.Response, error) {
	s.mu.Lock()
	i := len(s.attempts)
	o := oSuccess
	if i < len(s.script) {
		o = s.script[i]
	}
	s.attempts = append(s.attempts, attempt{start: time.Now(), cookie: req.Header.Get("Auth-Cookie"), path: req.URL.Path})
	s.mu.Unlock()
	if req.Body != nil {
		io.Copy(io.Discard, req.Body)
		req.Body.Close()
	}
	finish := func() {
		s.mu.Lock()
		s.attempts[i].end = time.Now()
		s.mu.Unlock()
	}
	defer finish()
	switch o {
	case oSuccess:
		r := workerrpc.Response{}
		switch req.URL.Path {
		case workerrpc.GetKey:
			r.Value, r.ID = pubDER, []byte("id-1")
		case workerrpc.Sign:
			r.Value = []byte("signature-bytes")
		}
		return jsonResp(req, 200, r), nil
	case oHTTP500, oHTTP502, oHTTP503, oHTTP504, oHTTP507, oHTTP400, oHTTP403, oHTTP404:
		code := map[outcome]int{oHTTP500: 500, oHTTP502: 502, oHTTP503: 503, oHTTP504: 504, oHTTP507: 507, oHTTP400: 400, oHTTP403: 403, oHTTP404: 404}[o]
		return &http.Response{StatusCode: code, Status: fmt.Sprintf("%d x", code), Body: io.NopCloser(bytes.NewReader([]byte("scripted"))), Header: http.Header{}, Request: req}, nil
	case oRefused:
		return nil, &net.OpError{Op: "dial", Net: "tcp", Err: os.NewSyscallError("connect", syscall.ECONNREFUSED)}
	case oTimeout:
		<-req.Context().Done()
		return nil, req.Context().Err()
	case oTokenRetryable:
		return jsonResp(req, 200, workerrpc.Response{Err: "token temporarily busy", Retryable: true}), nil
	case oTokenFatal:
		return jsonResp(req, 200, workerrpc.Response{Err: "object not found"}), nil
	case oKeyUsage:
		return jsonResp(req, 200, workerrpc.Response{Err: "key cannot be used for signing", Usage: true, Key: "thekey"}), nil
	case oMalformed:
		// not a JSON object: broken syntax, empty body, blank body, or an object followed by garbage
		body := malformedBodies[(i+s.malformedKind)%len(malformedBodies)]
		return &http.Response{StatusCode: 200, Status: "200 OK", Body: io.NopCloser(bytes.NewReader([]byte(body))), Header: http.Header{}, Request: req}, nil
	}
	panic("unreachable")
}

func testConfig(retries, timeout int) *config.Config {
	cfg := &config.Config{
		Tokens: map[string]*config.TokenConfig{"tok": {Type: "pkcs11", Retries: retries, Timeout: timeout}},
		Keys:   map[string]*config.KeyConfig{"thekey": {Token: "tok", Roles: []string{"r"}}},
	}
	if err := cfg.Normalize("verif.yml"); err != nil {
		panic(err)
	}
	return cfg
}

type caseDesc struct {
	Op       string   `json:"op"`
	Retries  int      `json:"retries"`
	Timeout  int      `json:"attempt_timeout_s"`
	Script   []string `json:"script"`
	CancelAt string   `json:"cancel_after,omitempty"`
	Error    string   `json:"error,omitempty"`
}

func TestC15_RetryModel(t *testing.T) {
	rapid.Check(t, func(rt *rapid.T) {
		// configured value: 0 and (a slip of the pen) negative values stand for the default of 5
		confRetries := rapid.SampledFrom([]int{1, 2, 3, 4, 5, 6, 7, 8, 1, 2, 3, 0, -1}).Draw(rt, "retries")
		retries := confRetries
		if retries <= 0 {
			retries = 5
		}
		timeout := rapid.SampledFrom([]int{1, 5, 60}).Draw(rt, "timeout")
		op := rapid.SampledFrom([]string{"ping", "getkey", "sign"}).Draw(rt, "op")
		n := rapid.IntRange(0, 9).Draw(rt, "scriptlen")
		bias := rapid.IntRange(0, 2).Draw(rt, "bias")
		malformedKind := rapid.IntRange(0, len(malformedBodies)-1).Draw(rt, "malformed_kind")
		var script []outcome
		for i := 0; i < n; i++ {
			var o outcome
			switch bias {
			case 0:
				o = outcome(rapid.IntRange(0, int(numOutcomes)-1).Draw(rt, "outcome"))
			default: // mostly transient, so that long retry chains occur
				o = rapid.SampledFrom([]outcome{oHTTP503, oHTTP500, oRefused, oTokenRetryable, oTimeout, oHTTP502, oHTTP504, oHTTP507, oKeyUsage, oSuccess, oTokenFatal, oMalformed}).Draw(rt, "outcome")
			}
			script = append(script, o)
		}
		cancelAfter := time.Duration(-1)
		if rapid.IntRange(0, 3).Draw(rt, "cancel") == 0 {
			// offset so that the cancellation never coincides with an attempt boundary
			cancelAfter = time.Duration(rapid.IntRange(0, 120000).Draw(rt, "cancel_ms"))*time.Millisecond + 337001*time.Nanosecond
		}
		cd := &caseDesc{Op: op, Retries: confRetries, Timeout: timeout}
		for _, o := range script {
			cd.Script = append(cd.Script, outcomeNames[o])
		}
		if cancelAfter >= 0 {
			cd.CancelAt = cancelAfter.String()
		}
		var failure string
		fatalf := func(f string, args ...any) {
			if failure == "" {
				failure = fmt.Sprintf(f, args...)
			}
		}
		var nAttempts int
		synctest.Test(t, func(*testing.T) {
			tr := &scripted{script: script, op: op, malformedKind: malformedKind}
			old := http.DefaultClient.Transport
			http.DefaultClient.Transport = tr
			defer func() { http.DefaultClient.Transport = old }()
			cfg := testConfig(confRetries, timeout)
			wt, err := worker.NewVerifClient(cfg, "tok", "worker.invalid:1", "the-cookie")
			if err != nil {
				fatalf("hook: %v", err)
				return
			}
			ctx, cancel := context.WithCancel(context.Background())
			defer cancel()
			t0 := time.Now()
			var cancelledAt time.Time
			cancelDone := make(chan struct{})
			if cancelAfter >= 0 {
				go func() {
					defer close(cancelDone)
					time.Sleep(cancelAfter)
					cancelledAt = time.Now()
					cancel()
				}()
				// the fake clock stops once the bubble's main goroutine returns
				defer func() { <-cancelDone }()
			}
			var opErr error
			var result []byte
			switch op {
			case "ping":
				opErr = wt.Ping(ctx)
			case "getkey":
				var k token.Key
				k, opErr = wt.GetKey(ctx, "thekey")
				if opErr == nil && (k == nil || string(k.GetID()) != "id-1") {
					fatalf("GetKey succeeded without the scripted key")
				}
			case "sign":
				// obtain a key handle first with a clean transport script, then sign
				tr.mu.Lock()
				saved := tr.script
				tr.script = nil
				tr.mu.Unlock()
				k, err := wt.GetKey(context.Background(), "thekey")
				if err != nil {
					fatalf("setup GetKey: %v", err)
					return
				}
				tr.mu.Lock()
				tr.script, tr.attempts = saved, nil
				tr.mu.Unlock()
				t0 = time.Now()
				result, opErr = k.SignContext(ctx, []byte("0123456789abcdef0123456789abcdef"), crypto.SHA256)
			}
			returned := time.Now()
			synctest.Wait()
			tr.mu.Lock()
			atts := append([]attempt(nil), tr.attempts...)
			tr.mu.Unlock()
			nAttempts = len(atts)
			// ----- model -----
			// walk the script on the fake timeline to find where cancellation (if any) lands
			wantAttempts := 0
			wantSuccess := false
			var stopOutcome outcome = -1
			cancelled := false
			now := time.Duration(0)
			delay := float32(time.Second)
			for i := 0; i < retries; i++ {
				if i > 0 {
					d := time.Duration(delay)
					if cancelAfter >= 0 && cancelAfter <= now+d {
						cancelled = true
						break
					}
					now += d
					delay *= 2.718
					if delay > float32(30*time.Second) {
						delay = float32(30 * time.Second)
					}
				}
				if cancelAfter >= 0 && cancelAfter <= now {
					// cancelled before the attempt starts: the client may or may not issue it
					cancelled = true
					break
				}
				o := oSuccess
				if i < len(script) {
					o = script[i]
				}
				wantAttempts++
				if o == oTimeout {
					if cancelAfter >= 0 && cancelAfter <= now+time.Duration(timeout)*time.Second {
						cancelled = true
						break
					}
					now += time.Duration(timeout) * time.Second
				}
				if o == oSuccess {
					wantSuccess = true
					stopOutcome = o
					break
				}
				if !transient(o) {
					stopOutcome = o
					break
				}
			}
			// ----- checks -----
			for _, a := range atts {
				if a.cookie != "the-cookie" {
					fatalf("request without the per-process secret: cookie %q", a.cookie)
				}
			}
			if len(atts) > retries {
				fatalf("%d attempts, configured maximum %d", len(atts), retries)
			}
			if cancelled {
				if opErr == nil {
					fatalf("operation reported success although the caller cancelled at %v", cancelAfter)
				}
				if !cancelledAt.IsZero() && returned.Sub(cancelledAt) != 0 {
					fatalf("operation returned %v after cancellation, want promptly (same fake instant)", returned.Sub(cancelledAt))
				}
				for _, a := range atts {
					if !cancelledAt.IsZero() && a.start.After(cancelledAt) {
						fatalf("an attempt started after the caller cancelled")
					}
				}
				return
			}
			if len(atts) != wantAttempts {
				fatalf("%d attempts, model expects %d (script %v, retries %d)", len(atts), wantAttempts, cd.Script, retries)
			}
			if wantSuccess != (opErr == nil) {
				fatalf("operation returned err=%v, model expects success=%v", opErr, wantSuccess)
			}
			if opErr == nil && op == "sign" && string(result) != "signature-bytes" {
				fatalf("sign returned %q", result)
			}
			if opErr != nil {
				var ku token.KeyUsageError
				isUsage := errors.As(opErr, &ku)
				if (stopOutcome == oKeyUsage) != isUsage {
					fatalf("error %T %q: key-usage classification %v, want %v", opErr, opErr, isUsage, stopOutcome == oKeyUsage)
				}
				if isUsage && ku.Key != "thekey" {
					fatalf("key-usage error names key %q", ku.Key)
				}
			}
			// delays between attempts
			prev := time.Duration(0)
			for i := 1; i < len(atts); i++ {
				gap := atts[i].start.Sub(atts[i-1].end)
				if gap < time.Second-time.Millisecond || gap > 30*time.Second+time.Millisecond {
					fatalf("delay before attempt %d is %v, outside [1s, 30s]", i+1, gap)
				}
				if gap < prev {
					fatalf("delay before attempt %d (%v) is shorter than the previous one (%v)", i+1, gap, prev)
				}
				if prev > 0 && prev < 11*time.Second {
					ratio := float64(gap) / float64(prev)
					if math.Abs(ratio-2.718) > 0.03 {
						fatalf("delay grew by a factor %.3f (%v -> %v), want e", ratio, prev, gap)
					}
				}
				prev = gap
			}
			_ = t0
		})
		nt := nAttempts >= 2 || cancelAfter >= 0
		rec.Case(fmt.Sprintf("%+v", *cd), fmt.Sprintf("retry/%s/attempts=%d/cancel=%v", op, min(nAttempts, 5), cancelAfter >= 0), nt)
		if nt {
			rec.Sample(fmt.Sprintf("retry/attempts=%d/cancel=%v", min(nAttempts, 5), cancelAfter >= 0), cd)
		}
		if failure != "" {
			cd.Error = failure
			evid.SaveCase("TestC15_RetryModel", cd)
			rt.Fatalf("%s\n case: %+v", failure, *cd)
		}
	})
}

// ---------- scripted token behind the real handler ----------

type fakeKey struct {
	id   []byte
	conf *config.KeyConfig
}

func (k *fakeKey) Public() crypto.PublicKey { return &testKey.PublicKey }
func (k *fakeKey) Sign(r io.Reader, d []byte, o crypto.SignerOpts) ([]byte, error) {
	return append([]byte("sig-by-"), k.id...), nil
}
func (k *fakeKey) SignContext(ctx context.Context, d []byte, o crypto.SignerOpts) ([]byte, error) {
	return k.Sign(nil, d, o)
}
func (k *fakeKey) Config() *config.KeyConfig               { return k.conf }
func (k *fakeKey) Certificate() []byte                     { return nil }
func (k *fakeKey) GetID() []byte                           { return k.id }
func (k *fakeKey) ImportCertificate(*x509.Certificate) error { return nil }

type fakeToken struct {
	mu      sync.Mutex
	calls   []string
	current string   // id of the key the token currently holds under the name
	known   []string // ids that can still be fetched when pinned
	err     error
	conf    *config.TokenConfig
}

func (f *fakeToken) Ping(context.Context) error {
	f.mu.Lock()
	defer f.mu.Unlock()
	f.calls = append(f.calls, "ping")
	return f.err
}
func (f *fakeToken) Close() error                { return nil }
func (f *fakeToken) Config() *config.TokenConfig { return f.conf }
func (f *fakeToken) GetKey(ctx context.Context, name string) (token.Key, error) {
	f.mu.Lock()
	defer f.mu.Unlock()
	want := token.KeyID(ctx)
	f.calls = append(f.calls, fmt.Sprintf("getkey:%s:%s", name, want))
	if f.err != nil {
		return nil, f.err
	}
	id := f.current
	if len(want) != 0 {
		id = ""
		for _, k := range f.known {
			if k == string(want) {
				id = k
			}
		}
		if id == "" {
			return nil, errors.New("no key with that id")
		}
	}
	return &fakeKey{id: []byte(id), conf: &config.KeyConfig{}}, nil
}
func (f *fakeToken) Import(string, crypto.PrivateKey) (token.Key, error) { return nil, errors.New("x") }
func (f *fakeToken) ImportCertificate(*x509.Certificate, string) error  { return errors.New("x") }
func (f *fakeToken) Generate(string, token.KeyType, uint) (token.Key, error) {
	return nil, errors.New("x")
}
func (f *fakeToken) ListKeys(token.ListOptions) error { return errors.New("x") }

type handlerTransport struct{ h http.Handler }

func (h handlerTransport) RoundTrip(req *http.Request) (*http.Response, error) {
	rw := httptest.NewRecorder()
	h.h.ServeHTTP(rw, req)
	resp := rw.Result()
	resp.Request = req
	return resp, nil
}

func TestC15_HandlerAndCookie(t *testing.T) {
	rapid.Check(t, func(rt *rapid.T) {
		ft := &fakeToken{current: "id-1", known: []string{"id-1"}, conf: &config.TokenConfig{}}
		errKind := rapid.SampledFrom([]string{"none", "none", "usage", "notimpl", "generic"}).Draw(rt, "tokenerror")
		switch errKind {
		case "usage":
			ft.err = token.KeyUsageError{Key: "thekey", Err: errors.New("not allowed to sign")}
		case "notimpl":
			ft.err = token.NotImplementedError{Op: "sign", Type: "fake"}
		case "generic":
			ft.err = errors.New("device hiccup")
		}
		h := workercmd.NewVerifHandler(ft, time.Minute, "right-cookie", func() {})
		cookie := rapid.SampledFrom([]string{"right-cookie", "right-cookie", "", "wrong-cookie", "right-cookie ", "RIGHT-COOKIE"}).Draw(rt, "cookie")
		op := rapid.SampledFrom([]string{"ping", "getkey", "sign"}).Draw(rt, "op")
		old := http.DefaultClient.Transport
		http.DefaultClient.Transport = handlerTransport{h}
		defer func() { http.DefaultClient.Transport = old }()
		cfg := testConfig(1, 5)
		wt, _ := worker.NewVerifClient(cfg, "tok", "worker.invalid:1", cookie)
		var err error
		switch op {
		case "ping":
			err = wt.Ping(context.Background())
		case "getkey":
			_, err = wt.GetKey(context.Background(), "thekey")
		case "sign":
			var k token.Key
			k, err = wt.GetKey(context.Background(), "thekey")
			if err == nil {
				_, err = k.SignContext(context.Background(), []byte("digest"), crypto.SHA256)
			}
		}
		desc := map[string]any{"cookie": cookie, "op": op, "token_error": errKind}
		rec.Case(fmt.Sprintf("handler|%s|%s|%s", cookie, op, errKind), "handler/"+op+"/"+errKind+fmt.Sprintf("/cookie-ok=%v", cookie == "right-cookie"), cookie != "right-cookie" || errKind != "none")
		rec.Sample("handler/"+errKind, desc)
		fail := func(f string, args ...any) {
			desc["error"] = fmt.Sprintf(f, args...)
			evid.SaveCase("TestC15_HandlerAndCookie", desc)
			rt.Fatalf("%s %v", desc["error"], desc)
		}
		ft.mu.Lock()
		calls := append([]string(nil), ft.calls...)
		ft.mu.Unlock()
		if cookie != "right-cookie" {
			if err == nil {
				fail("request with a wrong or missing secret succeeded")
			}
			if len(calls) != 0 {
				fail("request with a wrong or missing secret reached the token: %v", calls)
			}
			return
		}
		if errKind == "none" {
			if err != nil {
				fail("clean token: %v", err)
			}
			return
		}
		if err == nil {
			fail("token error %s was swallowed", errKind)
		}
		var ku token.KeyUsageError
		if errors.As(err, &ku) != (errKind == "usage") {
			fail("error %T %q: key-usage classification wrong for token error %s", err, err, errKind)
		}
		type temp interface{ Temporary() bool }
		var te temp
		isTemp := errors.As(err, &te) && te.Temporary()
		if isTemp != (errKind == "generic") {
			fail("error %q: retryable=%v, want %v for token error %s", err, isTemp, errKind == "generic", errKind)
		}
	})
}

// ---------- pinned key identifiers end to end: client -> RPC -> handler -> cache -> token ----------

// A key handle obtained from the worker client remembers the key identifier it was
// given; signing with that handle must be done by that very key even after the token
// rotated the key under the same name and the worker's cache holds the new one.
func TestC15_PinnedKeyEndToEnd(t *testing.T) {
	rapid.Check(t, func(rt *rapid.T) {
		expiry := time.Duration(rapid.SampledFrom([]int{0, 10, 600}).Draw(rt, "expiry_s")) * time.Second
		nsteps := rapid.IntRange(2, 20).Draw(rt, "steps")
		type step struct {
			Kind   string `json:"op"`
			Handle int    `json:"handle,omitempty"`
			Adv    int    `json:"advance_s,omitempty"`
		}
		var steps []step
		handles := 0
		for i := 0; i < nsteps; i++ {
			k := rapid.SampledFrom([]string{"getkey", "getkey", "sign", "sign", "sign", "rotate", "advance"}).Draw(rt, "op")
			if k == "sign" && handles == 0 {
				k = "getkey"
			}
			s := step{Kind: k}
			switch k {
			case "getkey":
				handles++
			case "sign":
				s.Handle = rapid.IntRange(0, handles-1).Draw(rt, "handle")
			case "advance":
				s.Adv = rapid.SampledFrom([]int{1, 9, 11, 601}).Draw(rt, "advance")
			}
			steps = append(steps, s)
		}
		var failure string
		rotations, staleSigns := 0, 0
		synctest.Test(t, func(*testing.T) {
			ft := &fakeToken{current: "id-1", known: []string{"id-1"}, conf: &config.TokenConfig{}}
			h := workercmd.NewVerifHandler(ft, expiry, "right-cookie", func() {})
			old := http.DefaultClient.Transport
			http.DefaultClient.Transport = handlerTransport{h}
			defer func() { http.DefaultClient.Transport = old }()
			wt, err := worker.NewVerifClient(testConfig(1, 5), "tok", "worker.invalid:1", "right-cookie")
			if err != nil {
				failure = "hook: " + err.Error()
				return
			}
			type held struct {
				key token.Key
				id  string
			}
			var hs []held
			g := 1
			for i, s := range steps {
				switch s.Kind {
				case "rotate":
					g++
					rotations++
					ft.mu.Lock()
					ft.current = fmt.Sprintf("id-%d", g)
					ft.known = append(ft.known, ft.current)
					ft.mu.Unlock()
				case "advance":
					time.Sleep(time.Duration(s.Adv) * time.Second)
				case "getkey":
					k, err := wt.GetKey(context.Background(), "thekey")
					if err != nil {
						failure = fmt.Sprintf("step %d: get-key failed: %v", i, err)
						return
					}
					hs = append(hs, held{k, string(k.GetID())})
				case "sign":
					hd := hs[s.Handle]
					sig, err := hd.key.SignContext(context.Background(), []byte("digest-digest-digest-digest-1234"), crypto.SHA256)
					if hd.id != fmt.Sprintf("id-%d", g) {
						staleSigns++
					}
					if err != nil {
						failure = fmt.Sprintf("step %d: signing with the handle for %s failed although the token still has that key: %v", i, hd.id, err)
						return
					}
					if string(sig) != "sig-by-"+hd.id {
						failure = fmt.Sprintf("step %d: handle pinned to key %s, but the signature was made by %q (token currently holds id-%d)", i, hd.id, sig, g)
						return
					}
				}
			}
		})
		desc := map[string]any{"expiry": expiry.String(), "steps": steps}
		rec.Case(fmt.Sprintf("pinned|%v|%v", expiry, steps), fmt.Sprintf("pinned-e2e/expiry=%v/stale-signs=%d", expiry, min(staleSigns, 3)), staleSigns > 0)
		if staleSigns > 0 {
			rec.Sample("pinned-e2e", desc)
		}
		if failure != "" {
			desc["error"] = failure
			evid.SaveCase("TestC15_PinnedKeyEndToEnd", desc)
			rt.Fatalf("%s\n %v", failure, desc)
		}
	})
}

// ---------- token cache state machine ----------

func TestC15_Cache(t *testing.T) {
	rapid.Check(t, func(rt *rapid.T) {
		expiry := time.Duration(rapid.SampledFrom([]int{0, 1, 10, 600}).Draw(rt, "expiry_s")) * time.Second
		nsteps := rapid.IntRange(1, 25).Draw(rt, "steps")
		type step struct {
			Kind string `json:"op"`
			Pin  string `json:"pin,omitempty"`
			Adv  int    `json:"advance_s,omitempty"`
		}
		var steps []step
		gen := 1
		for i := 0; i < nsteps; i++ {
			k := rapid.SampledFrom([]string{"get", "get", "get-pinned", "get-pinned", "rotate", "advance"}).Draw(rt, "op")
			s := step{Kind: k}
			switch k {
			case "get-pinned":
				s.Pin = fmt.Sprintf("id-%d", rapid.IntRange(1, gen+1).Draw(rt, "pin"))
			case "rotate":
				gen++
			case "advance":
				s.Adv = rapid.SampledFrom([]int{0, 1, 5, 9, 10, 11, 599, 600, 601}).Draw(rt, "advance")
			}
			steps = append(steps, s)
		}
		var failure string
		rotations := 0
		synctest.Test(t, func(*testing.T) {
			ft := &fakeToken{current: "id-1", known: []string{"id-1"}, conf: &config.TokenConfig{}}
			cache := tokencache.New(ft, expiry)
			// model
			var cachedID string
			var cachedUntil time.Time
			g := 1
			for i, s := range steps {
				switch s.Kind {
				case "rotate":
					g++
					rotations++
					ft.mu.Lock()
					ft.current = fmt.Sprintf("id-%d", g)
					ft.known = append(ft.known, ft.current)
					ft.mu.Unlock()
				case "advance":
					time.Sleep(time.Duration(s.Adv) * time.Second)
				case "get", "get-pinned":
					ctx := context.Background()
					if s.Pin != "" {
						ctx = token.WithKeyID(ctx, []byte(s.Pin))
					}
					ft.mu.Lock()
					before := len(ft.calls)
					ft.mu.Unlock()
					k, err := cache.GetKey(ctx, "thekey")
					ft.mu.Lock()
					fetched := len(ft.calls) > before
					ft.mu.Unlock()
					now := time.Now()
					fresh := cachedID != "" && cachedUntil.After(now)
					if s.Pin != "" {
						exists := false
						for j := 1; j <= g; j++ {
							if s.Pin == fmt.Sprintf("id-%d", j) {
								exists = true
							}
						}
						if err == nil && string(k.GetID()) != s.Pin {
							failure = fmt.Sprintf("step %d: request pinned to %s was served key %s", i, s.Pin, k.GetID())
							return
						}
						if exists && err != nil {
							failure = fmt.Sprintf("step %d: pinned %s exists but lookup failed: %v", i, s.Pin, err)
							return
						}
						if !exists && err == nil {
							failure = fmt.Sprintf("step %d: pinned %s does not exist but a key was returned", i, s.Pin)
							return
						}
						continue
					}
					if err != nil {
						failure = fmt.Sprintf("step %d: get failed: %v", i, err)
						return
					}
					got := string(k.GetID())
					if fresh {
						if got != cachedID {
							failure = fmt.Sprintf("step %d: cache is fresh (key %s until %v) but key %s was returned", i, cachedID, cachedUntil, got)
							return
						}
					} else {
						if !fetched {
							failure = fmt.Sprintf("step %d: cached key %q expired at %v (now %v) but was served without asking the token", i, cachedID, cachedUntil, now)
							return
						}
						if got != fmt.Sprintf("id-%d", g) {
							failure = fmt.Sprintf("step %d: token holds id-%d but %s was returned", i, g, got)
							return
						}
						if expiry > 0 {
							cachedID, cachedUntil = got, now.Add(expiry)
						}
					}
				}
			}
		})
		desc := map[string]any{"expiry": expiry.String(), "steps": steps}
		rec.Case(fmt.Sprintf("cache|%v|%v", expiry, steps), fmt.Sprintf("cache/expiry=%v/rot=%d", expiry, min(rotations, 3)), rotations > 0)
		if rotations > 0 {
			rec.Sample("cache", desc)
		}
		if failure != "" {
			desc["error"] = failure
			evid.SaveCase("TestC15_Cache", desc)
			rt.Fatalf("%s\n %v", failure, desc)
		}
	})
}
