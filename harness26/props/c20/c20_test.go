// C20 — health reporting follows token state with the configured hysteresis.
//
// The real server.New health loop runs inside a testing/synctest bubble (fake clock)
// against scripted tokens registered through token.Openers. A reference model written
// from the property statement predicts /health after every generated history.
package c20

import (
	"os"
	"context"
	"crypto"
	"crypto/x509"
	"errors"
	"fmt"
	"net/http"
	"net/http/httptest"
	"runtime"
	"strings"
	"sync"
	"testing"
	"testing/synctest"
	"time"

	"github.com/rs/zerolog"
	"github.com/sassoftware/relic/v8/config"
	"github.com/sassoftware/relic/v8/lib/passprompt"
	"github.com/sassoftware/relic/v8/server"
	"github.com/sassoftware/relic/v8/token"
	"github.com/sassoftware/relic/v8/xverif26/evid"
	"github.com/sassoftware/relic/v8/xverif26/known"
	"pgregory.net/rapid"
)

var rec = evid.New("C20")
var knownSet = known.Load("C20")

func TestMain(m *testing.M) {
	zerolog.SetGlobalLevel(zerolog.Disabled)
	token.Openers[scriptedType] = openScripted
	rec.Rule("cases = (token count 0-3, failure threshold N 1-5, interval, ping timeout, disabled flag, per-check per-token outcome script {ok, error, hang-until-timeout, slow-ok}, observation instants, close point) run on the real server health loop under a synctest fake clock and compared with a model of the property statement after every observation; non-trivial = history in which the expected health verdict changes at least once, or a hang/staleness episode occurs; distinct = distinct (config, script, observation schedule)")
	rec.Assume("fake clock: go1.26.8 testing/synctest; observation instants are offset by 0.5 s from all (integer-second) events so no verdict depends on same-instant ordering")
	rec.Assume("tokens are scripted fakes registered via token.Openers; PKCS#11 worker tokens are not exercised")
	evid.Main(m, rec)
}

const scriptedType = "verif-scripted"

type outcome int

const (
	oOK outcome = iota
	oErr
	oHang
	oSlow
)

var outcomeNames = []string{"ok", "err", "hang", "slow"}

type scriptedToken struct {
	name string
	conf *config.TokenConfig
	reg  *registry
}

// registry holds the script shared by the tokens of one case.
type registry struct {
	mu      sync.Mutex
	script  map[string][]step // per token name
	idx     map[string]int
	pings   int
	pingLog []string
}

type step struct {
	Out  outcome
	Slow int // seconds, for oSlow
}

var currentReg *registry

func openScripted(conf *config.Config, tokenName string, _ passprompt.PasswordGetter) (token.Token, error) {
	tc, err := conf.GetToken(tokenName)
	if err != nil {
		return nil, err
	}
	return &scriptedToken{name: tokenName, conf: tc, reg: currentReg}, nil
}

func (s *scriptedToken) Ping(ctx context.Context) error {
	r := s.reg
	r.mu.Lock()
	i := r.idx[s.name]
	r.idx[s.name] = i + 1
	r.pings++
	st := step{Out: oOK}
	if i < len(r.script[s.name]) {
		st = r.script[s.name][i]
	}
	r.mu.Unlock()
	switch st.Out {
	case oErr:
		return errors.New("scripted token failure")
	case oHang:
		<-ctx.Done()
		return ctx.Err()
	case oSlow:
		select {
		case <-time.After(time.Duration(st.Slow) * time.Second):
			return nil
		case <-ctx.Done():
			return ctx.Err()
		}
	}
	return nil
}
func (s *scriptedToken) Close() error                { return nil }
func (s *scriptedToken) Config() *config.TokenConfig { return s.conf }
func (s *scriptedToken) GetKey(context.Context, string) (token.Key, error) {
	return nil, errors.New("not implemented")
}
func (s *scriptedToken) Import(string, crypto.PrivateKey) (token.Key, error) {
	return nil, errors.New("not implemented")
}
func (s *scriptedToken) ImportCertificate(*x509.Certificate, string) error {
	return errors.New("not implemented")
}
func (s *scriptedToken) Generate(string, token.KeyType, uint) (token.Key, error) {
	return nil, errors.New("not implemented")
}
func (s *scriptedToken) ListKeys(token.ListOptions) error { return errors.New("not implemented") }

type caseDesc struct {
	Tokens   int      `json:"tokens"`
	N        int      `json:"threshold"`
	Interval int      `json:"interval_s"`
	Timeout  int      `json:"ping_timeout_s"`
	Disabled bool     `json:"disabled"`
	Script   []string `json:"script"`     // per check: outcomes per token
	Observe  []int    `json:"observe_ds"` // deciseconds offsets (each ends in 5)
	Error    string   `json:"error,omitempty"`
}

func makeConfig(c *caseDesc) *config.Config {
	cfg := &config.Config{
		Tokens:  map[string]*config.TokenConfig{},
		Keys:    map[string]*config.KeyConfig{},
		Server:  &config.ServerConfig{TokenCheckInterval: c.Interval, TokenCheckFailures: c.N, TokenCheckTimeout: c.Timeout, Disabled: c.Disabled},
		Clients: map[string]*config.ClientConfig{},
	}
	for i := 0; i < c.Tokens; i++ {
		tn := fmt.Sprintf("tok%d", i)
		cfg.Tokens[tn] = &config.TokenConfig{Type: scriptedType}
		cfg.Keys[fmt.Sprintf("key%d", i)] = &config.KeyConfig{Token: tn, Roles: []string{"r"}}
	}
	if err := cfg.Normalize("verif.yml"); err != nil {
		panic(err)
	}
	return cfg
}

func health(s *server.Server) int {
	rw := httptest.NewRecorder()
	req := httptest.NewRequest("GET", "/health", nil)
	s.Handler().ServeHTTP(rw, req)
	return rw.Code
}

func loopGoroutines() int {
	buf := make([]byte, 1<<20)
	n := runtime.Stack(buf, true)
	return strings.Count(string(buf[:n]), "server.(*Server).healthCheckLoop")
}

const closeSpinKey = "C20:close-spins-health-loop"

// TestC20_CloseEndsLoop runs first (outside any bubble): after Close the background
// loop goroutine must be gone. A spinning or still-running loop is reported here, so
// the model test below can assume that Close terminates the loop.
func TestC20_CloseEndsLoop(t *testing.T) {
	for i, c := range []caseDesc{
		{Tokens: 1, N: 3, Interval: 1, Timeout: 1},
		{Tokens: 0, N: 1, Interval: 60, Timeout: 60},
		{Tokens: 3, N: 2, Interval: 3600, Timeout: 5},
	} {
		reg := &registry{script: map[string][]step{}, idx: map[string]int{}}
		currentReg = reg
		before := loopGoroutines()
		s, err := server.New(makeConfig(&c))
		if err != nil {
			t.Fatal(err)
		}
		time.Sleep(20 * time.Millisecond)
		s.Close()
		gone := false
		for wait := 0; wait < 1000; wait++ {
			if loopGoroutines() <= before {
				gone = true
				break
			}
			time.Sleep(10 * time.Millisecond)
		}
		rec.Case(fmt.Sprintf("close-probe-%d", i), "close-probe", true)
		if !gone {
			if knownSet.Has(closeSpinKey) {
				rec.KnownFinding(closeSpinKey, "health check loop goroutine still running 10 s after Server.Close (select/break spin)")
				closeBroken = true
				return
			}
			closeBroken = true
			evid.SaveCase("TestC20_CloseEndsLoop", c)
			t.Fatalf("health check loop still running 10 s after Close (config %+v)", c)
		}
	}
}

var closeBroken bool

// rapid.Check asks for t.Deadline(), which panics inside a synctest bubble; hide it.
type noDeadline struct{ testing.TB }

func genCase(t *rapid.T) *caseDesc {
	c := &caseDesc{
		Tokens:   rapid.IntRange(0, 3).Draw(t, "tokens"),
		N:        rapid.IntRange(1, 5).Draw(t, "threshold"),
		Interval: rapid.SampledFrom([]int{1, 2, 5, 10, 60}).Draw(t, "interval"),
		Disabled: rapid.IntRange(0, 19).Draw(t, "disabled") == 0,
	}
	c.Timeout = rapid.IntRange(1, 4*c.Interval+1).Draw(t, "timeout")
	return c
}

type modelEvent struct {
	end int64 // deciseconds when the check completed
	ok  bool
}

// TestC20_Model compares /health with the model after generated histories.
func TestC20_Model(t *testing.T) {
	if closeBroken {
		t.Skip("Close does not end the loop (reported by TestC20_CloseEndsLoop); the bubble could not terminate")
	}
	{
		rapid.Check(t, func(rt *rapid.T) {
			c := genCase(rt)
			nchecks := rapid.IntRange(1, 25).Draw(rt, "nchecks")
			reg := &registry{script: map[string][]step{}, idx: map[string]int{}}
			// per-check, per-token outcomes; biased to runs of failures
			scripts := make([][]step, nchecks)
			failBias := rapid.IntRange(0, 3).Draw(rt, "failbias")
			for k := 0; k < nchecks; k++ {
				row := make([]step, c.Tokens)
				var desc []string
				for j := 0; j < c.Tokens; j++ {
					var o outcome
					switch failBias {
					case 0:
						o = outcome(rapid.IntRange(0, 3).Draw(rt, "out"))
					case 1: // mostly failing
						o = rapid.SampledFrom([]outcome{oErr, oErr, oErr, oHang, oOK}).Draw(rt, "out")
					case 2: // mostly ok
						o = rapid.SampledFrom([]outcome{oOK, oOK, oOK, oSlow, oErr}).Draw(rt, "out")
					default:
						o = rapid.SampledFrom([]outcome{oOK, oErr}).Draw(rt, "out")
					}
					st := step{Out: o}
					if o == oSlow {
						st.Slow = rapid.IntRange(1, 2*c.Timeout).Draw(rt, "slow")
					}
					row[j] = st
					d := outcomeNames[o]
					if o == oSlow {
						d = fmt.Sprintf("slow%d", st.Slow)
					}
					desc = append(desc, d)
					reg.script[fmt.Sprintf("tok%d", j)] = append(reg.script[fmt.Sprintf("tok%d", j)], st)
				}
				scripts[k] = row
				c.Script = append(c.Script, strings.Join(desc, ","))
			}
			// model timeline in deciseconds; all events at integer seconds
			var events []modelEvent
			start := int64(0)
			var horizon int64
			for k := 0; k < nchecks; k++ {
				dur := int64(0)
				ok := true
				for _, st := range scripts[k] {
					switch st.Out {
					case oErr:
						ok = false
					case oHang:
						ok = false
						dur += int64(c.Timeout)
					case oSlow:
						if st.Slow >= c.Timeout {
							// context deadline fires first (or at the same instant: treated as excluded below)
							ok = false
							dur += int64(c.Timeout)
						} else {
							dur += int64(st.Slow)
						}
					}
				}
				end := start + dur*10
				events = append(events, modelEvent{end: end, ok: ok})
				start = end + int64(c.Interval)*10
				horizon = end
			}
			for _, row := range scripts {
				for _, st := range row {
					if st.Out == oSlow && st.Slow == c.Timeout {
						rt.Skip("slow == timeout: same-instant race between completion and deadline is unspecified")
					}
				}
			}
			// observation instants: k + 0.5 s, sorted, within and a little beyond the scripted horizon
			nobs := rapid.IntRange(1, 12).Draw(rt, "nobs")
			maxT := horizon/10 + int64(4*c.Interval) + 2
			seen := map[int64]bool{}
			var obs []int64
			for i := 0; i < nobs; i++ {
				v := rapid.Int64Range(0, maxT).Draw(rt, "obs")*10 + 5
				if !seen[v] {
					seen[v] = true
					obs = append(obs, v)
				}
			}
			sortInt64(obs)
			for _, o := range obs {
				c.Observe = append(c.Observe, int(o))
			}
			closeAfter := rapid.IntRange(0, len(obs)).Draw(rt, "closeafter")

			var failure string
			fatalf := func(format string, args ...any) {
				if failure == "" {
					failure = fmt.Sprintf(format, args...)
				}
			}
			changes := 0
			sawStale := false
			// a deadlock inside the server (e.g. a lock taken twice) blocks the bubble for good:
			// the watchdog recognises a process that neither runs nor finishes
			caseDone := make(chan struct{})
			go func() {
				if evid.WaitOrBlocked(caseDone, 25*time.Second) {
					buf := make([]byte, 1<<20)
					buf = buf[:runtime.Stack(buf, true)]
					c.Error = "the server stopped making progress (all goroutines blocked for 25 s without CPU use) while this history was running: deadlock"
					evid.SaveCase("TestC20_Model", c)
					fmt.Printf("--- FAIL: TestC20_Model\n    %s\n    history: %+v\n%s\n", c.Error, *c, buf)
					rec.Flush()
					os.Exit(1)
				}
			}()
			defer close(caseDone)
			synctest.Test(t, func(*testing.T) {
				currentReg = reg
				srv, err := server.New(makeConfig(c))
				if err != nil {
					fatalf("server.New: %v", err)
					return
				}
				t0 := time.Now()
				closed := false
				defer func() {
					if !closed {
						srv.Close()
					}
					synctest.Wait()
				}()
				lastExpect := -1
				for i, o := range obs {
					if i == closeAfter {
						break
					}
					target := t0.Add(time.Duration(o) * 100 * time.Millisecond)
					time.Sleep(time.Until(target))
					synctest.Wait()
					// model verdict at instant o: checks beyond the script are all-ok with zero duration
					lastDone := int64(0) // server start
					fails := 0
					cnt := func(ev modelEvent) {
						lastDone = ev.end
						if ev.ok {
							fails = 0
						} else {
							fails++
						}
					}
					for _, ev := range events {
						if ev.end <= o {
							cnt(ev)
						}
					}
					// trailing implicit ok checks
					if len(events) > 0 && events[len(events)-1].end <= o {
						next := events[len(events)-1].end + int64(c.Interval)*10
						for next <= o {
							cnt(modelEvent{end: next, ok: true})
							next += int64(c.Interval) * 10
						}
					}
					stale := o-lastDone > 3*int64(c.Interval)*10
					healthy := !c.Disabled && !stale && fails < c.N
					want := http.StatusOK
					if !healthy {
						want = http.StatusServiceUnavailable
					}
					if stale {
						sawStale = true
					}
					if want != lastExpect {
						changes++
						lastExpect = want
					}
					if got := health(srv); got != want {
						fatalf("at t=%.1fs /health=%d want %d (disabled=%v stale=%v consecutive_failures=%d N=%d) case %+v", float64(o)/10, got, want, c.Disabled, stale, fails, c.N, *c)
					}
				}
				srv.Close()
				closed = true
				// a check that is in flight may finish (at most one ping timeout per token)
				time.Sleep(time.Duration(c.Tokens*c.Timeout)*time.Second + 500*time.Millisecond)
				synctest.Wait()
				if n := loopGoroutines(); n != 0 {
					fatalf("health loop goroutine still present after Close and after any in-flight check could finish")
					return
				}
				reg.mu.Lock()
				pingsAtClose := reg.pings
				reg.mu.Unlock()
				time.Sleep(time.Duration(5*c.Interval) * time.Second)
				synctest.Wait()
				reg.mu.Lock()
				pingsLater := reg.pings
				reg.mu.Unlock()
				if pingsLater != pingsAtClose {
					fatalf("%d token checks ran after Close", pingsLater-pingsAtClose)
				}
			})
			if failure != "" {
				evid.SaveCase("TestC20_Model", c)
				rt.Fatalf("%s", failure)
			}
			nt := changes >= 2 || sawStale
			key := fmt.Sprintf("%+v|close%d", *c, closeAfter)
			class := fmt.Sprintf("tokens=%d/N=%d/changes=%d/stale=%v/disabled=%v", c.Tokens, c.N, min(changes, 3), sawStale, c.Disabled)
			rec.Case(key, class, nt)
			if nt {
				rec.Sample(fmt.Sprintf("changes=%d/stale=%v", min(changes, 3), sawStale), c)
			}
		})
	}
}

func sortInt64(a []int64) {
	for i := 1; i < len(a); i++ {
		for j := i; j > 0 && a[j] < a[j-1]; j-- {
			a[j], a[j-1] = a[j-1], a[j]
		}
	}
}
